//go:build verif

// Package verifhook is the scheduler runtime that the instrumented copies of
// /repo's sources call. It is overlaid into the build as
// github.com/ChrisTrenkamp/xsel/verifhook at check time and never exists in
// /repo itself.
//
// Every function that touches scheduler state is marked //go:norace so that the
// race detector sees NO synchronisation between simulated tasks (scheduler L).
package verifhook

const (
	ModeOff = 0
	ModeL   = 1 // library: turn token, no happens-before edges
	ModeP   = 2 // CLI: park/release with blocked-state detection
)

var mode int

// Choose is the only source of scheduling choices (the run's tape).
var Choose func(n int) int

//go:norace
func Yield(site int) {
	switch mode {
	case ModeL:
		yieldL(site)
	case ModeP:
		yieldP(site)
	}
}

//go:norace
func Enter() {
	if mode == ModeP {
		enterP()
	}
}

//go:norace
func Leave() {
	if mode == ModeP {
		leaveP()
	}
}

//go:norace
func draw(n int) int {
	if n <= 1 || Choose == nil {
		return 0
	}
	return Choose(n)
}

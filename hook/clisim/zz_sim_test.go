//go:build verif

package main

// Overlaid as /repo/xsel/zz_sim_test.go at check time: runs the real main()
// of the CLI as task 0 under scheduler P. One process per simulated run.

import (
	"encoding/json"
	"os"
	"runtime"
	"testing"

	"github.com/ChrisTrenkamp/xsel/verifhook"
)

type simScenario struct {
	Args     []string `json:"args"`
	Stdin    string   `json:"stdin"`
	Stdout   string   `json:"stdout"`
	Stderr   string   `json:"stderr"`
	Result   string   `json:"result"`
	Words    []uint32 `json:"words"`
	Strategy int      `json:"strategy"`
	Depth    int      `json:"depth"`
	EstSteps int      `json:"est_steps"`
	MaxSteps int      `json:"max_steps"`
	LightDiv int      `json:"light_div"`
	Dir      string   `json:"dir"`
}

func lightSeed(words []uint32) uint64 {
	var h uint64 = 1469598103934665603
	for _, w := range words {
		h = (h ^ uint64(w)) * 1099511628211
	}
	return h
}

func TestVerifSim(t *testing.T) {
	path := os.Getenv("VERIF_SIM")
	if path == "" {
		t.Skip("no scenario")
	}
	b, err := os.ReadFile(path)
	if err != nil {
		t.Fatal(err)
	}
	var sc simScenario
	if err := json.Unmarshal(b, &sc); err != nil {
		t.Fatal(err)
	}
	if sc.Dir != "" {
		if err := os.Chdir(sc.Dir); err != nil {
			t.Fatal(err)
		}
	}
	os.Args = append([]string{"xsel"}, sc.Args...)
	if sc.Stdin != "" {
		f, err := os.Open(sc.Stdin)
		if err != nil {
			t.Fatal(err)
		}
		os.Stdin = f
	} else {
		f, _ := os.Open(os.DevNull)
		os.Stdin = f
	}
	out, err := os.Create(sc.Stdout)
	if err != nil {
		t.Fatal(err)
	}
	errf, err := os.Create(sc.Stderr)
	if err != nil {
		t.Fatal(err)
	}
	os.Stdout, os.Stderr = out, errf
	i := 0
	verifhook.Choose = func(n int) int {
		if len(sc.Words) == 0 {
			return 0
		}
		w := sc.Words[i%len(sc.Words)]
		i++
		return int(w % uint32(n))
	}
	runtime.GOMAXPROCS(1)
	res := verifhook.RunP(main, verifhook.PConfig{Strategy: sc.Strategy, Depth: sc.Depth, EstSteps: sc.EstSteps, MaxSteps: sc.MaxSteps, LightDiv: sc.LightDiv, LightSeed: lightSeed(sc.Words)})
	out.Sync()
	errf.Sync()
	rb, _ := json.Marshal(res)
	os.WriteFile(sc.Result, rb, 0o644)
	os.Exit(0)
}

//go:build verif

package verifhook

import (
	"bytes"
	"runtime"
	"runtime/debug"
	"strconv"
	"sync"
	"time"
	"unsafe"
)

// Goroutine-local identity without a traceback per yield: the runtime keeps
// one pointer per goroutine for profiler labels, inherited by goroutines it
// starts. runtime/pprof reaches it through these two functions, which the
// runtime keeps linkname-accessible. The CLI does not use profiler labels.
//
//go:linkname runtime_getProfLabel runtime/pprof.runtime_getProfLabel
func runtime_getProfLabel() unsafe.Pointer

//go:linkname runtime_setProfLabel runtime/pprof.runtime_setProfLabel
func runtime_setProfLabel(labels unsafe.Pointer)

type plabel struct {
	task     *ptask
	pending  *ptask // a goroutine announced by Spawn that has not identified itself yet
	ownerGid uint64 // the goroutine that announced it
}

// me returns the calling goroutine's task (nil for goroutines the scheduler
// does not track). The slow goroutine-id lookup runs only right after a spawn.
func me() *ptask {
	l := (*plabel)(runtime_getProfLabel())
	if l == nil {
		return nil
	}
	if l.pending == nil {
		return l.task
	}
	g := curGid()
	if g == l.ownerGid {
		runtime_setProfLabel(unsafe.Pointer(&plabel{task: l.task}))
		return l.task
	}
	t := l.pending
	t.gid = g
	runtime_setProfLabel(unsafe.Pointer(&plabel{task: t}))
	return t
}

// Scheduler P: every goroutine that enters instrumented code registers as a
// task, parks at every yield on its own channel and is released one at a time.
// After a release the scheduler waits until every task is parked at a yield,
// has exited, or is blocked on a synchronisation primitive (decided from the
// goroutine's runtime wait reason). When task 0 (main) returns, the run ends,
// exactly like a Go process: goroutines that have not run are simply lost.

const (
	stRunning = iota
	stAtYield
	stBlocked
	stExited
)

type ptask struct {
	id    int
	gid   uint64
	state int
	site  int
	depth int
	ch    chan struct{}
	steps int
	rng   uint64 // task-local: decides which fine-grained (library) yields park
}

type PConfig struct {
	Strategy int // 0 uniform, 1 priorities with change points, 2 run-to-block, 3 starve one task
	MaxSteps int
	Depth    int
	EstSteps int
	// Yields inside the CLI's own file always park. Yields inside library code
	// (parser, store, ...) park once in LightDiv on average, decided by a
	// task-local generator so that the decision does not depend on the order in
	// which tasks reach their yields. 0 = library yields never park.
	LightDiv  int
	LightSeed uint64
}

type PStep struct {
	Task int
	Site int
}

type PResult struct {
	End                    string // main-exit, deadlock, step-budget, harness
	Steps                  int
	Tasks                  int
	Switches               int
	Trace                  []PStep
	Note                   string
	BlockedSeen            map[string]int // wait reasons observed while a task was blocked
	MainReturnedWithParked int            // tasks still parked/blocked when main returned
	MaxParallel            int            // max number of simultaneously live worker tasks
}

var p struct {
	mu        sync.Mutex
	tasks     []*ptask
	byGid     map[uint64]*ptask
	expected  int // goroutines announced by Spawn()
	cfg       PConfig
	res       PResult
	prio      []int
	changeAt  []int
	victim    int
	last      int
	rel       *ptask // the task released for the current step
	relPrev   int    // the site it was released from
	forceDump bool   // look at every blocked task's wait reason, whatever the last step was
}

func curGid() uint64 {
	var buf [64]byte
	n := runtime.Stack(buf[:], false)
	// "goroutine 123 ["
	b := buf[:n]
	b = b[len("goroutine "):]
	i := bytes.IndexByte(b, ' ')
	if i < 0 {
		return 0
	}
	g, _ := strconv.ParseUint(string(b[:i]), 10, 64)
	return g
}

// Spawn announces that the next statement starts a goroutine (inserted by the
// instrumenter before every go statement). The new goroutine inherits the
// label set here and adopts the pending task at its first Enter.
func Spawn() {
	if mode != ModeP {
		return
	}
	cur := me()
	p.mu.Lock()
	p.expected++
	p.mu.Unlock()
	child := &ptask{id: -1, state: stAtYield, site: -1, ch: make(chan struct{})}
	runtime_setProfLabel(unsafe.Pointer(&plabel{task: cur, pending: child, ownerGid: curGid()}))
}

func enterP() {
	t := me()
	if t == nil {
		return
	}
	p.mu.Lock()
	if t.id < 0 {
		// first time in instrumented code: register and park until released
		t.id = len(p.tasks)
		t.rng = p.cfg.LightSeed ^ (uint64(t.id+1) * 0x9e3779b97f4a7c15)
		p.tasks = append(p.tasks, t)
		p.byGid[t.gid] = t
		t.depth = 1
		p.mu.Unlock()
		<-t.ch
		return
	}
	t.depth++
	p.mu.Unlock()
}

func leaveP() {
	t := me()
	p.mu.Lock()
	if t != nil {
		t.depth--
		if t.depth == 0 {
			t.state = stExited
		}
	}
	p.mu.Unlock()
}

var heavySite []bool

func lightSite(site int) bool { return site >= 0 && site < len(heavySite) && !heavySite[site] }

func quietSite(site int) bool { return site >= 0 && site < len(SyncSite) && !SyncSite[site] }

func yieldP(site int) {
	t := me()
	if t == nil {
		return
	}
	p.mu.Lock()
	if site >= 0 && site < len(heavySite) && !heavySite[site] {
		if p.cfg.LightDiv <= 0 {
			p.mu.Unlock()
			return
		}
		t.rng = t.rng*6364136223846793005 + 1442695040888963407
		if (t.rng>>33)%uint64(p.cfg.LightDiv) != 0 {
			p.mu.Unlock()
			return
		}
	}
	t.state = stAtYield
	t.site = site
	p.mu.Unlock()
	<-t.ch
}

var blockingReasons = []string{"chan send", "chan receive", "select", "semacquire", "sync.WaitGroup.Wait", "sync.Mutex.Lock", "sync.RWMutex.RLock", "sync.RWMutex.Lock", "sync.Cond.Wait", "sleep", "select (no cases)", "chan receive (nil chan)", "chan send (nil chan)"}

// waitReasons parses "goroutine N [reason(, M minutes)?]:" headers.
func waitReasons() map[uint64]string {
	buf := make([]byte, 1<<16)
	for {
		n := runtime.Stack(buf, true)
		if n < len(buf) {
			buf = buf[:n]
			break
		}
		buf = make([]byte, 2*len(buf))
	}
	out := map[uint64]string{}
	for _, line := range bytes.Split(buf, []byte("\n")) {
		if !bytes.HasPrefix(line, []byte("goroutine ")) {
			continue
		}
		rest := line[len("goroutine "):]
		i := bytes.IndexByte(rest, ' ')
		if i < 0 {
			continue
		}
		g, err := strconv.ParseUint(string(rest[:i]), 10, 64)
		if err != nil {
			continue
		}
		lb := bytes.IndexByte(rest, '[')
		rb := bytes.LastIndexByte(rest, ']')
		if lb < 0 || rb < lb {
			continue
		}
		reason := string(rest[lb+1 : rb])
		if c := bytes.IndexByte([]byte(reason), ','); c >= 0 {
			reason = reason[:c]
		}
		out[g] = reason
	}
	return out
}

func isBlocking(reason string) bool {
	for _, r := range blockingReasons {
		if reason == r {
			return true
		}
	}
	return false
}

// settle waits until every task is parked, exited or blocked, and every
// announced goroutine has registered. Returns false on a harness timeout.
func settle() bool {
	deadline := time.Now().Add(90 * time.Second)
	for round := 0; ; round++ {
		for i := 0; i < 4; i++ {
			runtime.Gosched()
		}
		p.mu.Lock()
		moving := 0
		needDump := false
		for _, t := range p.tasks {
			if t.state == stRunning {
				moving++
			}
			if t.state == stBlocked {
				needDump = true
			}
		}
		registered := len(p.tasks)
		expected := p.expected
		p.mu.Unlock()
		if registered < expected+1 { // +1: task 0 is not announced by Spawn
			if time.Now().After(deadline) {
				p.res.Note = "announced goroutine never entered instrumented code"
				return false
			}
			continue
		}
		if moving == 0 && !needDump {
			return true
		}
		if moving == 0 && !p.forceDump && p.rel != nil && p.rel.state == stAtYield && quietSite(p.relPrev) {
			// the statement just executed contains no synchronisation construct and
			// its function defers nothing: it cannot have released a blocked task
			return true
		}
		// some task is neither parked nor exited: blocked on a primitive, or still moving
		reasons := waitReasons()
		p.mu.Lock()
		still := 0
		for _, t := range p.tasks {
			if t.state != stRunning && t.state != stBlocked {
				continue
			}
			r, ok := reasons[t.gid]
			switch {
			case !ok:
				// goroutine is gone without Leave (runtime.Goexit or panic): treat as exited
				t.state = stExited
			case isBlocking(r) && !parkedOnOwnChannel(t, r):
				t.state = stBlocked
				p.res.BlockedSeen[r]++
			default:
				t.state = stRunning
				still++
			}
		}
		p.mu.Unlock()
		if still == 0 {
			// one more look at the registration count, a released task may have spawned
			p.mu.Lock()
			ok := len(p.tasks) >= p.expected+1
			p.mu.Unlock()
			if ok {
				return true
			}
		}
		if time.Now().After(deadline) {
			p.res.Note = "a task neither parked, exited nor blocked within 90s"
			return false
		}
	}
}

// A task that is in state running/blocked but shows "chan receive" could in
// principle be parked on its own scheduler channel — that only happens between
// setting stAtYield and the receive, and then its state is stAtYield, so this
// is never true for the states inspected above.
func parkedOnOwnChannel(t *ptask, reason string) bool { return false }

func runnableP() []*ptask {
	var out []*ptask
	for _, t := range p.tasks {
		if t.state == stAtYield {
			out = append(out, t)
		}
	}
	return out
}

func pickP(r []*ptask) *ptask {
	switch p.cfg.Strategy {
	case 1: // priorities with change points
		for len(p.prio) < len(p.tasks) {
			p.prio = append(p.prio, draw(1000)+1)
		}
		for _, c := range p.changeAt {
			if c == p.res.Steps && p.last >= 0 && p.last < len(p.prio) {
				p.prio[p.last] = -p.res.Steps
			}
		}
		best := r[0]
		for _, t := range r {
			if p.prio[t.id] > p.prio[best.id] {
				best = t
			}
		}
		return best
	case 2: // run to block: stay with the last task while it is runnable
		for _, t := range r {
			if t.id == p.last {
				return t
			}
		}
		return r[draw(len(r))]
	case 3: // starve one task while any other is runnable
		var others []*ptask
		for _, t := range r {
			if t.id != p.victim {
				others = append(others, t)
			}
		}
		if len(others) > 0 {
			return others[draw(len(others))]
		}
		return r[0]
	}
	return r[draw(len(r))]
}

// RunP runs mainFn (the instrumented main) as task 0 under scheduler P.
func RunP(mainFn func(), cfg PConfig) PResult {
	// one CLI execution per process: without collections a sync.Pool never
	// loses its contents, so pooled code takes the same branches every time
	debug.SetGCPercent(-1)
	p.tasks = nil
	p.byGid = map[uint64]*ptask{}
	p.expected = 0
	p.cfg = cfg
	if p.cfg.MaxSteps == 0 {
		p.cfg.MaxSteps = 200000
	}
	p.res = PResult{BlockedSeen: map[string]int{}}
	p.prio = nil
	p.changeAt = nil
	p.last = -1
	est := cfg.EstSteps
	if est < 50 {
		est = 50
	}
	for d := 0; d < cfg.Depth; d++ {
		p.changeAt = append(p.changeAt, draw(est))
	}
	p.victim = draw(6)
	heavySite = make([]bool, len(Sites))
	for i, s := range Sites {
		heavySite[i] = len(s) >= 13 && s[:13] == "xsel/xsel.go:"
	}
	mode = ModeP
	// task 0: the goroutine started next inherits this label and adopts the task
	runtime_setProfLabel(unsafe.Pointer(&plabel{pending: &ptask{id: -1, state: stAtYield, site: -1, ch: make(chan struct{})}, ownerGid: curGid()}))
	go mainFn()
	runtime_setProfLabel(nil)
	// start handshake: wait for task 0 to register
	for {
		runtime.Gosched()
		p.mu.Lock()
		n := len(p.tasks)
		p.mu.Unlock()
		if n > 0 {
			break
		}
	}
	for {
		if !settle() {
			p.res.End = "harness"
			break
		}
		p.mu.Lock()
		if p.tasks[0].state == stExited {
			p.res.End = "main-exit"
			for _, t := range p.tasks[1:] {
				if t.state != stExited {
					p.res.MainReturnedWithParked++
				}
			}
			p.mu.Unlock()
			break
		}
		r := runnableP()
		live := 0
		for _, t := range p.tasks[1:] {
			if t.state != stExited {
				live++
			}
		}
		if live > p.res.MaxParallel {
			p.res.MaxParallel = live
		}
		if len(r) == 0 {
			if !p.forceDump {
				// before concluding: re-examine every blocked task's wait reason
				p.forceDump = true
				p.mu.Unlock()
				continue
			}
			p.res.End = "deadlock"
			p.mu.Unlock()
			break
		}
		p.forceDump = false
		if p.res.Steps >= p.cfg.MaxSteps {
			p.res.End = "step-budget"
			p.mu.Unlock()
			break
		}
		t := pickP(r)
		if t.id != p.last {
			p.res.Switches++
		}
		p.last = t.id
		p.res.Steps++
		t.steps++
		if len(p.res.Trace) < 4000 {
			p.res.Trace = append(p.res.Trace, PStep{t.id, t.site})
		}
		t.state = stRunning
		p.rel, p.relPrev = t, t.site
		p.mu.Unlock()
		t.ch <- struct{}{}
	}
	p.mu.Lock()
	p.res.Tasks = len(p.tasks)
	p.mu.Unlock()
	// leave mode P on: parked goroutines stay parked, the process is about to end
	return p.res
}

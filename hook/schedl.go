//go:build verif

package verifhook

import (
	"runtime"
	"runtime/debug"
	"sync"
	"time"
	"unsafe"
)

// task identity for scheduler L: the goroutine-local profiler-label pointer
// (see schedp.go). Goroutines started by library code inherit their task's
// identity.
type llabel struct{ id int }

//go:norace
func lid() int {
	p := (*llabel)(runtime_getProfLabel())
	if p == nil {
		return -1
	}
	return p.id
}

// Scheduler L: tasks are real goroutines under GOMAXPROCS(1); a plain `turn`
// variable says who may run. At a yield the running task may hand the turn to
// another task and then spins with runtime.Gosched() until the turn comes back.
// No channel, mutex or atomic is involved, so the race detector records no
// happens-before edge between tasks: every conflicting unsynchronised access
// of the code under test is reported, however far apart the accesses are.

type LConfig struct {
	Strategy    int // 0 geometric gaps, 1 PCT, 2 site-targeted (+gaps), 3 serial
	MeanGap     int
	PCTDepth    int
	EstSteps    int
	TargetSites []int
	TargetTimes int
	MaxSteps    int
}

type LResult struct {
	Steps       int
	Switches    int
	Trace       []uint32 // task<<20 | site at every context switch
	Aborted     bool
	Forced      int // switches forced at targeted sites
	PerTask     []int
	Interleaved bool // at least two tasks each ran a step between another task's first and last step
	// Stalls counts how often the turn holder made no progress for stallAfter
	// (it was blocked in a real synchronisation primitive of the code under
	// test) and the turn was taken over by a waiting task.
	Stalls int
}

// a turn holder that executes no yield for this long is considered blocked in
// a real primitive (mutex, channel, WaitGroup) held by a task that is waiting
// for its turn; BuildExpr, the longest un-instrumented step, takes a few ms
const stallAfter = 400 * time.Millisecond

var l struct {
	turn     int
	n        int
	done     []bool
	steps    int
	gap      int
	cfg      LConfig
	res      LResult
	prio     []int
	changeAt []int
	target   []int
	first    []int
	last     []int
	blocked  []bool   // known to sit in a real primitive: not scheduled until it shows up at a yield again
	gids     []uint64 // goroutine id of each task (for the runtime's wait reasons)
}

//go:norace
func waitTurn(me int) {
	spins := 0
	lastSteps := l.steps
	var since time.Time
	for l.turn != me {
		runtime.Gosched()
		spins++
		if spins%2048 != 0 {
			continue
		}
		if l.turn < 0 {
			// nobody holds the turn (every other live task was blocked when the
			// last holder finished): a task that is ready again takes it
			l.turn = me
			continue
		}
		if l.steps != lastSteps {
			lastSteps, since = l.steps, time.Time{}
			continue
		}
		if since.IsZero() {
			since = time.Now()
		}
		holder := l.turn
		if holder < 0 || holder >= l.n || l.done[holder] || holder == me {
			continue
		}
		// is the holder parked by the runtime in a synchronisation primitive of
		// the code under test (a mutex a parked task holds, a channel, a Once)?
		// Then waiting longer cannot help: take the turn over now. The decision
		// follows from the interleaving, not from timing.
		if g := l.gids[holder]; g != 0 && isBlocking(waitReasons()[g]) {
			l.res.Stalls++
			l.blocked[holder] = true
			l.turn = me
			continue
		}
		if time.Since(since) > stallAfter && l.turn == holder {
			// the holder is blocked in a primitive of the code under test: take over
			l.res.Stalls++
			l.blocked[l.turn] = true
			l.turn = me
		}
	}
}

//go:norace
func drawGap() int {
	m := l.cfg.MeanGap
	if m < 1 {
		m = 1
	}
	return 1 + draw(2*m)
}

//go:norace
func runnableOther(cur int) []int {
	out := make([]int, 0, l.n)
	for i := 0; i < l.n; i++ {
		if i != cur && !l.done[i] && !l.blocked[i] {
			out = append(out, i)
		}
	}
	return out
}

//go:norace
func switchTo(cur, next, site int) {
	if next == cur {
		return
	}
	l.res.Switches++
	if len(l.res.Trace) < 2048 {
		l.res.Trace = append(l.res.Trace, uint32(next)<<20|uint32(site&0xfffff))
	}
	l.turn = next
	if cur >= 0 && !l.done[cur] {
		waitTurn(cur)
	}
}

//go:norace
func bestPrio(except int) int {
	best := -1
	for i := 0; i < l.n; i++ {
		if l.done[i] || i == except || l.blocked[i] {
			continue
		}
		if best < 0 || l.prio[i] > l.prio[best] {
			best = i
		}
	}
	return best
}

//go:norace
func yieldL(site int) {
	me := lid()
	if me < 0 || me >= l.n || l.done[me] {
		return // not inside a simulated task (e.g. harness pre-computation)
	}
	if l.turn != me {
		// a task that was blocked in a real primitive (and lost the turn
		// meanwhile) is ready again and waits here until it is scheduled
		l.blocked[me] = false
		waitTurn(me)
	}
	l.steps++
	l.res.PerTask[me]++
	if l.first[me] == 0 {
		l.first[me] = l.steps
	}
	l.last[me] = l.steps
	if l.steps > l.cfg.MaxSteps {
		l.res.Aborted = true
		return
	}
	switch l.cfg.Strategy {
	case 3:
		return
	case 1: // PCT
		for _, c := range l.changeAt {
			if c == l.steps {
				min := l.prio[0]
				for _, p := range l.prio {
					if p < min {
						min = p
					}
				}
				l.prio[me] = min - 1
			}
		}
		if b := bestPrio(-1); b >= 0 && b != me {
			switchTo(me, b, site)
		}
		return
	case 2:
		if site >= 0 && site < len(l.target) && l.target[site] > 0 {
			l.target[site]--
			if o := runnableOther(me); len(o) > 0 {
				l.res.Forced++
				switchTo(me, o[draw(len(o))], site)
				return
			}
		}
	}
	l.gap--
	if l.gap > 0 {
		return
	}
	l.gap = drawGap()
	if o := runnableOther(me); len(o) > 0 {
		switchTo(me, o[draw(len(o))], site)
	}
}

//go:norace
func exitL(me int) {
	if l.turn != me {
		// finished without holding the turn (it had been taken over while this
		// task was blocked): nothing to hand on
		l.done[me] = true
		return
	}
	l.done[me] = true
	var next int = -1
	if l.cfg.Strategy == 1 {
		next = bestPrio(me)
	} else if o := runnableOther(me); len(o) > 0 {
		next = o[draw(len(o))]
	}
	if next >= 0 {
		l.res.Switches++
		if len(l.res.Trace) < 2048 {
			l.res.Trace = append(l.res.Trace, uint32(next)<<20|0xfffff)
		}
		l.turn = next
	} else {
		l.turn = -1
	}
}

//go:norace
func setupL(n int, cfg LConfig) {
	l.n = n
	l.done = make([]bool, n)
	l.steps = 0
	l.cfg = cfg
	l.res = LResult{PerTask: make([]int, n)}
	l.first = make([]int, n)
	l.last = make([]int, n)
	l.blocked = make([]bool, n)
	l.gids = make([]uint64, n)
	l.turn = -1
	l.prio = make([]int, n)
	l.changeAt = nil
	l.target = make([]int, len(Sites)+1)
	if cfg.MaxSteps == 0 {
		l.cfg.MaxSteps = 200000
	}
	switch cfg.Strategy {
	case 1:
		// random priorities: a drawn permutation
		for i := range l.prio {
			l.prio[i] = i
		}
		for i := n - 1; i > 0; i-- {
			j := draw(i + 1)
			l.prio[i], l.prio[j] = l.prio[j], l.prio[i]
		}
		est := cfg.EstSteps
		if est < 10 {
			est = 10
		}
		for d := 0; d < cfg.PCTDepth; d++ {
			l.changeAt = append(l.changeAt, 1+draw(est))
		}
	case 2:
		for _, s := range cfg.TargetSites {
			if s >= 0 && s < len(l.target) {
				l.target[s] = cfg.TargetTimes
			}
		}
	}
	l.gap = drawGap()
}

//go:norace
func finishL() LResult {
	mode = ModeOff
	l.res.Steps = l.steps
	// interleaving measure: some task ran strictly inside another task's span
	for i := 0; i < l.n; i++ {
		for j := 0; j < l.n; j++ {
			if i != j && l.first[i] > 0 && l.first[j] > 0 && l.first[i] < l.first[j] && l.first[j] < l.last[i] {
				l.res.Interleaved = true
			}
		}
	}
	return l.res
}

//go:norace
func startL() {
	mode = ModeL
	if l.cfg.Strategy == 1 {
		l.turn = bestPrio(-1)
	} else {
		l.turn = draw(l.n)
	}
}

// RunL executes the scripts as simulated tasks under scheduler L and returns
// when all of them have finished. The caller must have set GOMAXPROCS(1).
func RunL(scripts []func(), cfg LConfig) LResult {
	// The collector decides when a sync.Pool loses its contents, and with that
	// which branch pooled code takes: collect twice now (a pool is empty after
	// two cycles) and not again until the tasks are done, so that a run's yield
	// sequence does not depend on allocation timing.
	runtime.GC()
	runtime.GC()
	defer debug.SetGCPercent(debug.SetGCPercent(-1))
	setupL(len(scripts), cfg)
	var wg sync.WaitGroup
	for i := range scripts {
		wg.Add(1)
		go func(me int) {
			defer wg.Done()
			runtime_setProfLabel(unsafe.Pointer(&llabel{id: me}))
			l.gids[me] = curGid()
			waitTurn(me)
			defer exitL(me)
			scripts[me]()
		}(i)
	}
	startL()
	wg.Wait()
	return finishL()
}

module verif

go 1.23

require github.com/ChrisTrenkamp/xsel v0.0.0

require (
	github.com/goccmack/goutil v1.2.3 // indirect
	github.com/pkg/errors v0.9.1 // indirect
	golang.org/x/net v0.19.0
	golang.org/x/text v0.14.0
)

replace github.com/ChrisTrenkamp/xsel => /repo

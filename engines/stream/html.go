package stream

import (
	"io"

	"github.com/ChrisTrenkamp/xsel"

	"verif/model"
	"verif/simio"
	"verif/simkit"
)

func readHtml(r io.Reader) (xsel.Cursor, error) { return xsel.ReadHtml(r) }

// htmlJudge compares ReadHtml's result on the given bytes with the reference
// DOM walk. Returns true if the input was judged (starts with a doctype).
func htmlJudge(o *simkit.Outcome, what string, data []byte, d *simio.Delivery) bool {
	const P = "C17"
	c, err, pan := safeRead(readHtml, simio.NewSimReader(d))
	o.Evals++
	if !monitor(o, P, "ReadHtml", c, err, pan) {
		return false
	}
	want, ok := model.HTMLRef(data)
	if !ok {
		o.Probe("not-judged-no-leading-doctype")
		return false
	}
	if err != nil {
		o.Violate(P, "doctype-page-rejected", "doctype-page-rejected", "%s: ReadHtml fails on a page that starts with a doctype: %v\npage: %s", what, err, show(data))
		return true
	}
	s := model.Snap(c)
	for _, p := range s.Problems {
		o.Violate(P, "structure", "structure:"+p.Sig, "%s: %s\npage: %s", what, p.Detail, show(data))
	}
	w, g := want.Render(true, true), s.Tree.Render(true, true)
	if w != g {
		o.Violate(P, "mirror", "mirror:"+classifyXMLDiff(want, s.Tree), "%s: tree differs from the HTML5 parse tree: %s\npage: %s", what, model.FirstDiff(w, g), show(data))
	}
	return true
}

// HTML is the C17 engine.
func HTML(t *simkit.Tape, o *simkit.Outcome, full bool) {
	const P = "C17"
	cfg := model.DrawHTMLConfig(t)
	data := model.GenHTML(t, cfg)
	o.Steps += len(data)
	if full {
		o.Scenario = map[string]any{"config": cfg, "page": show(data)}
	}
	judged := 0
	if htmlJudge(o, "clean page", data, simio.AllAtOnce(data)) {
		judged++
	}
	// delivery schedules
	nd := 1 + t.Draw(2)
	for i := 0; i < nd && len(o.Violations) == 0; i++ {
		d := simio.DrawDelivery(t, data)
		o.Fault("delivery:" + d.Law)
		if len(d.ZeroBefore) > 0 {
			o.Fault("zero-length-reads")
		}
		if htmlJudge(o, "delivery "+d.String(), data, d) {
			judged++
		}
	}
	// truncation at sampled offsets (every prefix of a page is a page)
	nt := 6 + t.Draw(10)
	for i := 0; i < nt && len(data) > 0 && len(o.Violations) == 0; i++ {
		k := t.Draw(len(data))
		o.Fault("truncation")
		if htmlJudge(o, "truncated page", data[:k], simio.AllAtOnce(data[:k])) {
			judged++
		}
	}
	// read error at sampled offsets: never a tree built from the bytes seen so far
	nr := 4 + t.Draw(6)
	for i := 0; i < nr; i++ {
		k := t.Draw(len(data) + 1)
		d := simio.AllAtOnce(data)
		if t.Bool(1, 2) {
			d = simio.DrawDelivery(t, data)
		}
		d.FailAt = k
		d.FailErr = simio.FailErr(k)
		d.FailWithData = t.Bool(1, 2)
		c, err, pan := safeRead(readHtml, simio.NewSimReader(d))
		o.Evals++
		o.Fault("read-error")
		if !monitor(o, P, "ReadHtml", c, err, pan) {
			return
		}
		if err == nil && k < len(data) {
			o.Violate(P, "read-error-swallowed", "read-error-swallowed", "reader failed after %d of %d bytes (%v) but ReadHtml returned a tree and a nil error\npage: %s", k, len(data), d.FailErr, show(data))
			break
		}
	}
	// content faults: the tag-soup source
	nc := 8 + t.Draw(12)
	for i := 0; i < nc && len(o.Violations) == 0; i++ {
		cor, kind := Corrupt(t, data, true)
		if t.Bool(1, 3) {
			cor, _ = Corrupt(t, cor, true)
		}
		o.Fault("corrupt:" + kind)
		d := simio.AllAtOnce(cor)
		if t.Bool(1, 3) {
			d = simio.DrawDelivery(t, cor)
		}
		if htmlJudge(o, "corrupted page ("+kind+")", cor, d) {
			judged++
		}
	}
	if t.Bool(1, 3) && cfg.Doctype == 0 {
		cfg2 := model.DrawHTMLConfig(t)
		cfg2.Doctype = 0
		interleavedParsers(t, o, P, "html", data, model.GenHTML(t, cfg2))
	}
	o.ProbeN("judged-inputs", judged)
	o.NonTrivial = judged >= 3
	o.Fingerprint = simkit.Hash64(string(data))
}

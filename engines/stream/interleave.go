package stream

import (
	"bytes"
	"fmt"
	"io"

	"github.com/ChrisTrenkamp/xsel/node"
	"github.com/ChrisTrenkamp/xsel/parser"
	"github.com/ChrisTrenkamp/xsel/store"

	"verif/model"
	"verif/simkit"
)

// Two Parser objects alive at once with interleaved Pull calls: a legal,
// single-threaded history at the Parser seam. Each resulting tree must equal
// the tree of the same bytes parsed alone.

type pulled struct {
	n   node.Node
	end bool
	err error
}

type sidePuller struct {
	t    *simkit.Tape
	main parser.Parser
	side parser.Parser
	buf  []pulled
	done bool
	n    int
}

func (s *sidePuller) pullSide() {
	if s.done {
		return
	}
	n, end, err := s.side.Pull()
	s.buf = append(s.buf, pulled{n, end, err})
	if err != nil {
		s.done = true
	}
}

func (s *sidePuller) Pull() (node.Node, bool, error) {
	k := s.t.Pick(2, 2, 1)
	for i := 0; i < k; i++ {
		s.pullSide()
		s.n++
	}
	return s.main.Pull()
}

type replayThenContinue struct {
	buf  []pulled
	pos  int
	rest parser.Parser
	done bool
}

func (r *replayThenContinue) Pull() (node.Node, bool, error) {
	if r.pos < len(r.buf) {
		p := r.buf[r.pos]
		r.pos++
		if p.err != nil {
			r.done = true
		}
		return p.n, p.end, p.err
	}
	if r.done {
		return nil, false, io.EOF
	}
	return r.rest.Pull()
}

func mkParser(kind string, data []byte) (parser.Parser, error) {
	switch kind {
	case "xml":
		return parser.ReadXml(bytes.NewReader(data)), nil
	case "json":
		return parser.ReadJson(bytes.NewReader(data)), nil
	}
	return parser.ReadHtml(bytes.NewReader(data))
}

func aloneRender(kind string, data []byte) (string, error) {
	p, err := mkParser(kind, data)
	if err != nil {
		return "", err
	}
	c, err := store.CreateInMemory(p)
	if err != nil {
		return "", err
	}
	return model.Snap(c).Tree.Render(true, true), nil
}

// interleavedParsers runs the check; kind is xml, json or html.
func interleavedParsers(t *simkit.Tape, o *simkit.Outcome, prop, kind string, a, b []byte) {
	defer func() {
		if r := recover(); r != nil {
			o.Violate(prop, "panic", "panic:interleaved-parsers", "two parsers with interleaved Pull calls panicked: %v\nA: %s\nB: %s", r, show(a), show(b))
		}
	}()
	wantA, errA := aloneRender(kind, a)
	wantB, errB := aloneRender(kind, b)
	if errA != nil || errB != nil {
		return
	}
	pa, e1 := mkParser(kind, a)
	pb, e2 := mkParser(kind, b)
	if e1 != nil || e2 != nil {
		return
	}
	sp := &sidePuller{t: t, main: pa, side: pb}
	ca, err := store.CreateInMemory(sp)
	o.Evals += 2
	o.Fault("interleaved-parsers")
	o.ProbeN("side-pulls-interleaved", sp.n)
	if err != nil {
		o.Violate(prop, "parser-interference", "parser-interference:error", "document A parses alone but fails when another parser's Pull calls are interleaved: %v\nA: %s\nB: %s", err, show(a), show(b))
		return
	}
	if got := model.Snap(ca).Tree.Render(true, true); got != wantA {
		o.Violate(prop, "parser-interference", "parser-interference:tree", "document A's tree differs when another parser's Pull calls are interleaved: %s\nA: %s\nB: %s", model.FirstDiff(wantA, got), show(a), show(b))
		return
	}
	cb, err := store.CreateInMemory(&replayThenContinue{buf: sp.buf, rest: pb, done: sp.done})
	if err != nil {
		o.Violate(prop, "parser-interference", "parser-interference:error", "document B parses alone but fails when its Pull calls are interleaved with another parser's: %v\nA: %s\nB: %s", err, show(a), show(b))
		return
	}
	if got := model.Snap(cb).Tree.Render(true, true); got != wantB {
		o.Violate(prop, "parser-interference", "parser-interference:tree", "document B's tree differs when its Pull calls are interleaved with another parser's: %s\nA: %s\nB: %s", model.FirstDiff(wantB, got), show(a), show(b))
		return
	}
	// and the first tree is still intact after the second was built
	if got := model.Snap(ca).Tree.Render(true, true); got != wantA {
		o.Violate(prop, "parser-interference", "earlier-tree-disturbed", "document A's tree changed after document B was built: %s\nA: %s\nB: %s", model.FirstDiff(wantA, got), show(a), show(b))
	}
	_ = fmt.Sprint
}

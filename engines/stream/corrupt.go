package stream

import (
	"unicode/utf8"

	"verif/simkit"
)

var hostile = []rune{'<', '>', '&', '"', '\'', '/', '{', '}', '[', ']', ',', ':', '\\', 'x', '0', ' ', '-', '?', '!', ';', '=', 'é', '\n', '1', 'e', '.', 't', 'n', 'u', '#'}

// Corrupt applies one content fault. With codepoints=true offsets fall on
// code-point boundaries so that valid UTF-8 stays valid UTF-8.
func Corrupt(t *simkit.Tape, data []byte, codepoints bool) ([]byte, string) {
	if len(data) == 0 {
		return []byte{byte(hostile[t.Draw(len(hostile))])}, "insert"
	}
	bound := func() int {
		i := t.Draw(len(data) + 1)
		if codepoints {
			for i > 0 && i < len(data) && !utf8.RuneStart(data[i]) {
				i--
			}
		}
		return i
	}
	next := func(i int) int {
		if i >= len(data) {
			return i
		}
		if !codepoints {
			return i + 1
		}
		_, sz := utf8.DecodeRune(data[i:])
		return i + sz
	}
	ins := func() []byte {
		r := hostile[t.Draw(len(hostile))]
		if !codepoints && r > 0x7f {
			r = 'x'
		}
		return []byte(string(r))
	}
	out := make([]byte, 0, len(data)+8)
	switch t.Pick(4, 3, 3, 2, 2, 2) {
	case 0:
		i := bound()
		if i >= len(data) {
			i = 0
		}
		out = append(out, data[:i]...)
		out = append(out, ins()...)
		out = append(out, data[next(i):]...)
		return out, "flip"
	case 1:
		i := bound()
		if i >= len(data) {
			i = 0
		}
		out = append(out, data[:i]...)
		out = append(out, data[next(i):]...)
		return out, "delete"
	case 2:
		i := bound()
		out = append(out, data[:i]...)
		out = append(out, ins()...)
		out = append(out, data[i:]...)
		return out, "insert"
	case 3: // swap two adjacent chunks
		a, b, c := bound(), bound(), bound()
		a, b, c = sort3(a, b, c)
		out = append(out, data[:a]...)
		out = append(out, data[b:c]...)
		out = append(out, data[a:b]...)
		out = append(out, data[c:]...)
		return out, "swap-chunks"
	case 4: // duplicate a chunk
		a, b := bound(), bound()
		if a > b {
			a, b = b, a
		}
		out = append(out, data[:b]...)
		out = append(out, data[a:b]...)
		out = append(out, data[b:]...)
		return out, "duplicate-chunk"
	default: // lose a chunk
		a, b := bound(), bound()
		if a > b {
			a, b = b, a
		}
		out = append(out, data[:a]...)
		out = append(out, data[b:]...)
		return out, "lose-chunk"
	}
}

func sort3(a, b, c int) (int, int, int) {
	if a > b {
		a, b = b, a
	}
	if b > c {
		b, c = c, b
	}
	if a > b {
		a, b = b, a
	}
	return a, b, c
}

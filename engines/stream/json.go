package stream

import (
	"io"
	"regexp"
	"strings"

	"github.com/ChrisTrenkamp/xsel"

	"verif/model"
	"verif/simio"
	"verif/simkit"
)

func readJson(r io.Reader) (xsel.Cursor, error) { return xsel.ReadJson(r) }

// jsonStructure checks the cursor-level invariants and returns the tree.
func jsonSnap(o *simkit.Outcome, prop string, c xsel.Cursor, ctx string) *model.Node {
	s := model.Snap(c)
	for _, p := range s.Problems {
		o.Violate(prop, "structure", "structure:"+p.Sig, "%s\n%s", p.Detail, ctx)
	}
	return s.Tree
}

// JSON is the C16 engine.
func JSON(t *simkit.Tape, o *simkit.Outcome, full bool) {
	const P = "C16"
	cfg := model.DrawJSONConfig(t)
	vals := model.GenJSON(t, cfg)
	data := model.SerialiseJSON(t, cfg, vals)
	want := model.JSONToTree(vals)
	o.Steps += len(data)
	if full {
		o.Scenario = map[string]any{"config": cfg, "text": show(data), "top_level_values": len(vals)}
	}
	// harness self-check: the independent reader must agree with the generator
	rv, st := model.JSONRef(data)
	if st != model.JSONOK || want.Render(true, false) != refTree(rv).Render(true, false) {
		o.HarnessDoubt("reference JSON reader disagrees with the generator on clean input %q (status %d)", data, st)
		return
	}

	c, err, pan := safeRead(readJson, simio.NewSimReader(simio.AllAtOnce(data)))
	o.Evals++
	if !monitor(o, P, "ReadJson", c, err, pan) {
		return
	}
	if err != nil {
		o.Violate(P, "clean-input-rejected", "clean-input-rejected", "ReadJson failed on valid JSON: %v\ntext: %s", err, show(data))
		return
	}
	got := jsonSnap(o, P, c, "text: "+show(data))
	if d := model.CompareJSONTree(want, got, ""); d != "" {
		o.Violate(P, "mapping", "mapping", "tree differs from the documented mapping: %s\ntext: %s", d, show(data))
	}
	ref := got.Render(true, true)

	nd := 1 + t.Draw(3)
	for i := 0; i < nd; i++ {
		d := simio.DrawDelivery(t, data)
		c2, err2, pan2 := safeRead(readJson, simio.NewSimReader(d))
		o.Evals++
		o.Fault("delivery:" + d.Law)
		if len(d.ZeroBefore) > 0 {
			o.Fault("zero-length-reads")
		}
		if !monitor(o, P, "ReadJson", c2, err2, pan2) {
			return
		}
		if err2 != nil {
			o.Violate(P, "delivery-dependence", "delivery-error", "ReadJson fails under delivery %s: %v\ntext: %s", d, err2, show(data))
			continue
		}
		if g2 := model.Snap(c2).Tree.Render(true, true); g2 != ref {
			o.Violate(P, "delivery-dependence", "delivery-tree", "tree depends on the delivery schedule %s: %s\ntext: %s", d, model.FirstDiff(ref, g2), show(data))
		}
	}

	// every truncation offset
	inside := 0
	law := t.Draw(3)
	for k := 0; k < len(data); k++ {
		prefix := data[:k]
		var d *simio.Delivery
		switch law {
		case 0:
			d = simio.AllAtOnce(prefix)
		case 1:
			d = &simio.Delivery{Data: prefix, Law: "halves", Chunks: []int{k / 2, k - k/2}, FailAt: -1, EOFWithData: k%2 == 0}
		default:
			d = &simio.Delivery{Data: prefix, Law: "tail-one-byte", Chunks: []int{max0(k - 3), 1, 1, 1}, FailAt: -1}
		}
		ct, et, pt := safeRead(readJson, simio.NewSimReader(d))
		o.Evals++
		if !monitor(o, P, "ReadJson", ct, et, pt) {
			return
		}
		pv, pst := model.JSONRef(prefix)
		switch pst {
		case model.JSONMalformed:
			o.Fault("truncation-malformed")
			inside++
			if k < len(data) && data[k]&0xC0 == 0x80 {
				o.Probe("truncation-inside-multibyte-sequence")
			}
			if et == nil {
				o.Violate(P, "shorter-tree-nil-error", "truncation-accepted", "text truncated at %d of %d is malformed JSON but ReadJson returned a tree and a nil error\nprefix: %s", k, len(data), show(prefix))
			}
		case model.JSONOK:
			o.Fault("truncation-still-valid")
			if et != nil {
				o.Violate(P, "truncation", "valid-prefix-rejected", "prefix of length %d is valid JSON but ReadJson fails: %v\nprefix: %s", k, et, show(prefix))
			} else if dd := model.CompareJSONTree(refTree(pv), model.Snap(ct).Tree, ""); dd != "" {
				o.Violate(P, "truncation", "valid-prefix-tree", "prefix of length %d: %s\nprefix: %s", k, dd, show(prefix))
			}
		default:
			o.Fault("truncation-unjudged")
		}
		if len(o.Violations) > 3 {
			break
		}
	}

	// read error at every offset
	for k := 0; k <= len(data); k++ {
		d := simio.AllAtOnce(data)
		d.FailAt = k
		d.FailErr = simio.FailErr(k)
		d.FailWithData = k%2 == 1
		cr, er, pr := safeRead(readJson, simio.NewSimReader(d))
		o.Evals++
		if !monitor(o, P, "ReadJson", cr, er, pr) {
			return
		}
		o.Fault("read-error")
		if er == nil {
			if _, pst := model.JSONRef(data[:k]); pst == model.JSONMalformed {
				o.Violate(P, "shorter-tree-nil-error", "read-error-swallowed", "reader failed after %d of %d bytes (%v) but ReadJson returned a tree and a nil error\ntext: %s", k, len(data), d.FailErr, show(data))
				break
			}
		}
	}

	// sampled corruption (code-point level: the text stays valid UTF-8)
	nc := 8 + t.Draw(16)
	for i := 0; i < nc; i++ {
		cor, kind := Corrupt(t, data, true)
		o.Fault("corrupt:" + kind)
		var d *simio.Delivery
		if t.Bool(1, 2) {
			d = simio.DrawDelivery(t, cor)
		} else {
			d = simio.AllAtOnce(cor)
		}
		cc, ec, pc := safeRead(readJson, simio.NewSimReader(d))
		o.Evals++
		if !monitor(o, P, "ReadJson", cc, ec, pc) {
			return
		}
		cv, cst := model.JSONRef(cor)
		switch cst {
		case model.JSONMalformed:
			o.Probe("corruption-malformed")
			if ec == nil {
				o.Violate(P, "shorter-tree-nil-error", "malformed-accepted", "corrupted text (%s) is malformed JSON but ReadJson returned a tree and a nil error\ntext: %s", kind, show(cor))
			}
		case model.JSONOK:
			o.Probe("corruption-still-valid")
			if ec != nil {
				o.Violate(P, "mapping", "valid-text-rejected", "corrupted text (%s) is still valid JSON but ReadJson fails: %v\ntext: %s", kind, ec, show(cor))
			} else if dd := model.CompareJSONTree(refTree(cv), model.Snap(cc).Tree, ""); dd != "" {
				o.Violate(P, "mapping", "mapping-after-corruption", "corrupted text (%s) is still valid JSON: %s\ntext: %s", kind, dd, show(cor))
			}
		default:
			o.Probe("corruption-unjudged")
		}
	}
	// a numeral that denotes no double (grammatically valid JSON): an error is
	// fine and so is keeping the literal, but never a text that is no numeral
	if t.Bool(1, 5) {
		huge := []string{"1e400", "-1E999", "1.8e308", "123456789e301", "1e309", "-1e309", "17976931348623158" + strings.Repeat("0", 293)}[t.Draw(7)]
		text := []string{huge, "[" + huge + "]", `{"k": ` + huge + `, "z": 1}`, "[1, " + huge + ", 2]"}[t.Draw(4)]
		ch, eh, ph := safeRead(readJson, simio.NewSimReader(simio.DrawDelivery(t, []byte(text))))
		o.Evals++
		o.Fault("number-outside-double-range")
		if !monitor(o, P, "ReadJson", ch, eh, ph) {
			return
		}
		if eh == nil {
			var walk func(n *model.Node)
			walk = func(n *model.Node) {
				if n.Kind == model.KText && !jsonNumeral.MatchString(n.Value) {
					o.Violate(P, "mapping", "number-without-double-becomes-non-numeral", "the numeral %s denotes no double; ReadJson returned a nil error and the text node %q, which is not a number\ntext: %s", huge, n.Value, text)
				}
				for _, c := range n.Children {
					walk(c)
				}
			}
			walk(model.Snap(ch).Tree)
		}
	}
	if t.Bool(1, 3) {
		cfg2 := model.DrawJSONConfig(t)
		other := model.SerialiseJSON(t, cfg2, model.GenJSON(t, cfg2))
		interleavedParsers(t, o, P, "json", data, other)
	}
	o.NonTrivial = len(data) >= 5 && inside > 0
	o.Fingerprint = simkit.Hash64(string(data))
}

var jsonNumeral = regexp.MustCompile(`^-?(0|[1-9][0-9]*)(\.[0-9]+)?([eE][+-]?[0-9]+)?$`)

func refTree(vals []*model.JV) *model.Node { return model.JSONToTree(vals) }

// Package stream drives ReadXml / ReadJson / ReadHtml through the simulated
// io.Reader (seam S1): delivery schedules, truncation (torn file), read errors
// and content corruption.
package stream

import (
	"bytes"
	"encoding/xml"
	"fmt"
	"io"
	"unicode/utf8"

	"github.com/ChrisTrenkamp/xsel"
	"golang.org/x/net/html/charset"

	"verif/model"
	"verif/simio"
	"verif/simkit"
)

// safeRead calls a reader entry point under the C15 monitor.
func safeRead(f func(io.Reader) (xsel.Cursor, error), r io.Reader) (c xsel.Cursor, err error, panicked string) {
	defer func() {
		if p := recover(); p != nil {
			panicked = fmt.Sprint(p)
		}
	}()
	c, err = f(r)
	return
}

func readXml(r io.Reader) (xsel.Cursor, error) { return xsel.ReadXml(r) }

// readXmlEnt reads with the parse option the CLI's -e flag uses.
func readXmlEnt(r io.Reader) (xsel.Cursor, error) {
	return xsel.ReadXml(r, func(d *xml.Decoder) { d.Entity = map[string]string{"ent": "EV"} })
}

// readXmlEntAdd declares the entity by adding to whatever map the decoder
// already carries (an option written by a user who wants to keep entities
// installed by earlier options).
func readXmlEntAdd(r io.Reader) (xsel.Cursor, error) {
	return xsel.ReadXml(r, func(d *xml.Decoder) {
		if d.Entity == nil {
			d.Entity = map[string]string{}
		}
		d.Entity["ent"] = "EV"
	})
}

// xmlDetects answers one bit: does a bare encoding/xml decoder (same charset
// reader) report an error before EOF on these bytes?
func xmlDetects(data []byte) bool { return xmlDetectsEnt(data, false) }

func xmlDetectsEnt(data []byte, ent bool) bool {
	d := xml.NewDecoder(bytes.NewReader(data))
	d.CharsetReader = charset.NewReaderLabel
	if ent {
		d.Entity = map[string]string{"ent": "EV"}
	}
	for {
		_, err := d.Token()
		if err == io.EOF {
			return false
		}
		if err != nil {
			return true
		}
	}
}

func show(b []byte) string {
	if utf8.Valid(b) {
		return string(b)
	}
	return fmt.Sprintf("%q", b)
}

// checkResult is the common post-condition of every reader call.
func monitor(o *simkit.Outcome, prop, what string, c xsel.Cursor, err error, panicked string) bool {
	if panicked != "" {
		o.Violate(prop, "panic", "panic:"+what, "%s panicked: %s", what, panicked)
		return false
	}
	if err == nil && c == nil {
		o.Violate(prop, "nil-nil", "nil-nil:"+what, "%s returned a nil cursor with a nil error", what)
		return false
	}
	return true
}

// XML is the C09 engine.
func XML(t *simkit.Tape, o *simkit.Outcome, full bool) {
	const P = "C09"
	cfg := model.DrawXMLConfig(t)
	readXml := readXml
	xmlDetects := xmlDetects
	if cfg.Entities {
		readXml = readXmlEnt
		if t.Bool(1, 2) {
			readXml = readXmlEntAdd
			o.Probe("custom-entity-option-adds-in-place")
		}
		xmlDetects = func(b []byte) bool { return xmlDetectsEnt(b, true) }
		o.Probe("custom-entity-option")
	}
	doc := model.GenXML(t, cfg)
	ser := model.SerialiseXML(t, cfg, doc)
	data := ser.Bytes
	if cfg.Encoding != "" {
		o.Probe("declared-encoding:" + cfg.Encoding)
		for _, b := range data {
			if b >= 0x80 {
				o.Probe("declared-encoding-with-non-ascii-bytes:" + cfg.Encoding)
				break
			}
		}
	}
	want := doc.Render(false, true)
	o.Steps += len(data)
	nNodes := doc.CountNodes()
	if full {
		o.Scenario = map[string]any{"config": cfg, "document": show(data), "nodes": nNodes, "root_end": ser.RootEnd}
	}

	// 1. fault-free, reference delivery
	c, err, pan := safeRead(readXml, simio.NewSimReader(simio.AllAtOnce(data)))
	o.Evals++
	if !monitor(o, P, "ReadXml", c, err, pan) {
		return
	}
	if err != nil {
		if !xmlDetects(data) {
			o.Violate(P, "clean-input-rejected", "clean-input-rejected", "ReadXml failed on a well-formed document although the decoder reports no error: %v\ndocument: %s", err, show(data))
		} else {
			o.HarnessDoubt("generator produced a document the decoder rejects: %v\n%s", err, show(data))
		}
		return
	}
	if t.Bool(1, 3) {
		model.TouchBottomUp(c)
		o.Probe("first-observation-bottom-up")
	}
	snap := model.Snap(c)
	for _, p := range snap.Problems {
		o.Violate(P, "structure", "structure:"+p.Sig, "%s\ndocument: %s", p.Detail, show(data))
	}
	got := snap.Tree.Render(false, true)
	if got != want {
		sig := classifyXMLDiff(doc, snap.Tree)
		o.Violate(P, "fidelity", "fidelity:"+sig, "tree differs from the document: %s\ndocument: %s", model.FirstDiff(want, got), show(data))
	}
	refOrdered := snap.Tree.Render(true, true)

	// 2. other delivery schedules give the same tree
	nd := 1 + t.Draw(3)
	for i := 0; i < nd; i++ {
		d := simio.DrawDelivery(t, data)
		r := simio.NewSimReader(d)
		c2, err2, pan2 := safeRead(readXml, r)
		o.Evals++
		o.Fault("delivery:" + d.Law)
		if len(d.ZeroBefore) > 0 {
			o.Fault("zero-length-reads")
		}
		if !monitor(o, P, "ReadXml", c2, err2, pan2) {
			return
		}
		if err2 != nil {
			o.Violate(P, "delivery-dependence", "delivery-error", "ReadXml fails under delivery %s: %v\ndocument: %s", d, err2, show(data))
			continue
		}
		if g2 := model.Snap(c2).Tree.Render(true, true); g2 != refOrdered {
			o.Violate(P, "delivery-dependence", "delivery-tree", "tree depends on the delivery schedule %s: %s\ndocument: %s", d, model.FirstDiff(refOrdered, g2), show(data))
		}
	}

	// 3. every truncation offset (torn file / crash of the producer)
	law := t.Draw(3) // 0: all at once, 1: drawn chunking, 2: one byte
	inside := 0
	// every offset for ordinary documents; for padded (multi-KiB) ones every offset
	// outside the padding comment plus a sample inside it
	stride := 1
	if len(data) > 2500 {
		stride = 1 + len(data)/600
		o.Probe("long-document-offsets-sampled")
	}
	for k := 0; k < len(data); k++ {
		if stride > 1 && k%stride != 0 && !(k > len(data)-700) && k > 64 {
			continue
		}
		prefix := data[:k]
		var d *simio.Delivery
		switch law {
		case 0:
			d = simio.AllAtOnce(prefix)
		case 1:
			d = &simio.Delivery{Data: prefix, Law: "halves", Chunks: []int{k / 2, k - k/2}, FailAt: -1, EOFWithData: k%2 == 0}
		default:
			d = &simio.Delivery{Data: prefix, Law: "tail-one-byte", Chunks: []int{max0(k - 3), 1, 1, 1}, FailAt: -1}
		}
		ct, et, pt := safeRead(readXml, simio.NewSimReader(d))
		o.Evals++
		if !monitor(o, P, "ReadXml", ct, et, pt) {
			return
		}
		exp := model.ExpectedAfterTruncation(doc, ser, k)
		switch {
		case exp != nil:
			o.Fault("truncation-after-document-element")
			if et != nil {
				o.Violate(P, "truncation", "complete-prefix-rejected", "prefix of length %d is a complete document but ReadXml fails: %v\nprefix: %s", k, et, show(prefix))
			} else if g := model.Snap(ct).Tree.Render(false, true); g != exp.Render(false, true) {
				o.Violate(P, "truncation", "complete-prefix-tree:"+classifyXMLDiff(exp, model.Snap(ct).Tree), "prefix of length %d: %s\nprefix: %s", k, model.FirstDiff(exp.Render(false, true), g), show(prefix))
			}
		default:
			o.Fault("truncation-inside-document")
			inside++
			if k > 0 && k < len(data) && data[k]&0xC0 == 0x80 {
				o.Probe("truncation-inside-multibyte-sequence")
			}
			if xmlDetects(prefix) {
				if et == nil {
					o.Violate(P, "partial-tree-nil-error", "truncation-accepted", "input truncated at %d of %d: the decoder detects an error but ReadXml returned a tree and a nil error\nprefix: %s", k, len(data), show(prefix))
					break
				}
			} else {
				o.Probe("truncation-not-detected-by-decoder")
			}
		}
		if len(o.Violations) > 3 {
			break
		}
	}

	// 4. read error at every offset
	for k := 0; k <= len(data); k++ {
		if stride > 1 && k%stride != 0 && !(k > len(data)-700) && k > 64 {
			continue
		}
		d := simio.AllAtOnce(data)
		d.FailAt = k
		d.FailErr = simio.FailErr(k)
		d.FailWithData = k%2 == 1
		if law == 2 {
			d.Chunks = []int{max0(k - 2), 1, 1, len(data)}
		}
		cr, er, pr := safeRead(readXml, simio.NewSimReader(d))
		o.Evals++
		if !monitor(o, P, "ReadXml", cr, er, pr) {
			return
		}
		o.Fault("read-error")
		if er == nil && model.ExpectedAfterTruncation(doc, ser, k) == nil {
			o.Violate(P, "partial-tree-nil-error", "read-error-swallowed", "reader failed after %d of %d bytes (%v) but ReadXml returned a tree and a nil error\ndocument: %s", k, len(data), d.FailErr, show(data))
			break
		}
	}

	// 5. sampled corruption
	nc := 8 + t.Draw(16)
	for i := 0; i < nc; i++ {
		cor, kind := Corrupt(t, data, cfg.Encoding == "" || cfg.Encoding == "UTF-8")
		if t.Bool(1, 8) {
			// a reference to an entity nobody declared, in element content
			var at []int
			for k := 0; k+1 < len(data); k++ {
				if data[k] == '<' && data[k+1] == '/' {
					at = append(at, k)
				}
			}
			if len(at) > 0 {
				k := at[t.Draw(len(at))]
				ref := []string{"&copy;", "&nbsp;", "&ent;", "&undefined;"}[t.Draw(4)] // names no generated DOCTYPE declares
				if cfg.Entities && ref == "&ent;" {
					ref = "&copy;"
				}
				cor = append(append(append([]byte{}, data[:k]...), ref...), data[k:]...)
				kind = "undefined-entity-reference"
			}
		}
		o.Fault("corrupt:" + kind)
		var d *simio.Delivery
		if t.Bool(1, 2) {
			d = simio.DrawDelivery(t, cor)
		} else {
			d = simio.AllAtOnce(cor)
		}
		cc, ec, pc := safeRead(readXml, simio.NewSimReader(d))
		o.Evals++
		if !monitor(o, P, "ReadXml", cc, ec, pc) {
			return
		}
		if xmlDetects(cor) {
			o.Probe("corruption-detected-by-decoder")
			if ec == nil {
				o.Violate(P, "partial-tree-nil-error", "corruption-accepted", "corrupted input (%s): the decoder detects an error but ReadXml returned a tree and a nil error\ninput: %s", kind, show(cor))
			}
		} else {
			o.Probe("corruption-still-decodable")
		}
	}
	// 6. two parsers alive with interleaved Pull calls
	if t.Bool(1, 3) && !cfg.Entities && (cfg.Encoding == "" || cfg.Encoding == "UTF-8") {
		cfg2 := model.DrawXMLConfig(t)
		cfg2.Encoding = ""
		cfg2.Entities = false
		other := model.SerialiseXML(t, cfg2, model.GenXML(t, cfg2)).Bytes
		interleavedParsers(t, o, P, "xml", data, other)
	}
	o.NonTrivial = nNodes >= 3 && inside > 0
	o.Fingerprint = simkit.Hash64(string(data))
}

func max0(a int) int {
	if a < 0 {
		return 0
	}
	return a
}

// classifyXMLDiff names the shape of a fidelity difference, so that a known
// finding never hides a different defect.
func classifyXMLDiff(want, got *model.Node) string {
	w, g := flatten(want), flatten(got)
	for i := 0; i < len(w) || i < len(g); i++ {
		if i >= len(w) {
			return "extra-" + g[i].kind
		}
		if i >= len(g) {
			return "missing-" + w[i].kind
		}
		if w[i].line != g[i].line {
			if w[i].kind == g[i].kind {
				return "wrong-" + w[i].kind
			}
			return "want-" + w[i].kind + "-got-" + g[i].kind
		}
	}
	return "unknown"
}

type flatLine struct{ kind, line string }

func flatten(n *model.Node) []flatLine {
	var out []flatLine
	var rec func(n *model.Node)
	rec = func(n *model.Node) {
		switch n.Kind {
		case model.KElem:
			out = append(out, flatLine{"element", "E" + n.Space + "|" + n.Local})
			for _, k := range simkit.SortedKeys(n.InScope) {
				out = append(out, flatLine{"namespace", "N" + k + "=" + n.InScope[k]})
			}
			m := map[string]string{}
			for _, a := range n.Attrs {
				m["{"+a.Space+"}"+a.Local] = a.Value
			}
			for _, k := range simkit.SortedKeys(m) {
				out = append(out, flatLine{"attribute", "A" + k + "=" + m[k]})
			}
		case model.KText:
			out = append(out, flatLine{"text", "T" + n.Value})
		case model.KComment:
			out = append(out, flatLine{"comment", "C" + n.Value})
		case model.KPI:
			out = append(out, flatLine{"pi", "P" + n.Target + " " + n.Value})
		}
		for _, c := range n.Children {
			rec(c)
		}
	}
	rec(n)
	return out
}

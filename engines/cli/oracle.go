package cli

import (
	"bytes"
	"encoding/xml"
	"fmt"
	"io"
	"mime"
	"os"
	"path/filepath"
	"sort"
	"strings"
	"unicode/utf8"

	"github.com/ChrisTrenkamp/xsel"

	"verif/model"
	"verif/simkit"
)

// The C20 oracle: the harness links the same library and computes, per
// argument in order, what must appear on stdout.

type record struct {
	prefix string
	text   string      // string records: exact bytes (without the trailing newline)
	node   xsel.Cursor // -m records: the selected node
	isXML  bool
}

type fileExpect struct {
	path     string
	silent   bool // no stdout expected
	needDiag bool // a diagnostic on stderr is required (unreadable / unparsable)
	records  []record
	why      string
}

func (s *Scenario) bindings() (map[string]string, []xsel.ContextApply) {
	ns := map[string]string{}
	for _, kv := range s.NS {
		ns[kv[0]] = kv[1]
	}
	opts := []xsel.ContextApply{}
	for k, v := range ns {
		opts = append(opts, xsel.WithNS(k, v))
	}
	for _, kv := range s.Vars {
		name, err := xsel.GetQName(kv[0], ns)
		if err != nil {
			continue
		}
		opts = append(opts, xsel.WithVariableName(name, xsel.String(kv[1])))
	}
	return ns, opts
}

func (s *Scenario) parse(path string, data []byte, fromStdin bool) (xsel.Cursor, string, error) {
	typ := s.T
	if typ == "" {
		if fromStdin {
			return nil, "", fmt.Errorf("stdin needs -t")
		}
		media, _, err := mime.ParseMediaType(mime.TypeByExtension(filepath.Ext(path)))
		if err != nil {
			return nil, "untyped", err
		}
		switch {
		case strings.Contains(media, "xml"):
			typ = "xml"
		case strings.Contains(media, "html"):
			typ = "html"
		case strings.Contains(media, "json"):
			typ = "json"
		default:
			return nil, "untyped", fmt.Errorf("unsupported media type %s", media)
		}
	}
	var c xsel.Cursor
	var err error
	switch typ {
	case "xml":
		ents := map[string]string{}
		for _, kv := range s.Entities {
			ents[kv[0]] = kv[1]
		}
		c, err = xsel.ReadXml(bytes.NewReader(data), func(d *xml.Decoder) {
			d.Strict = !s.U
			d.Entity = ents
		})
	case "html":
		c, err = xsel.ReadHtml(bytes.NewReader(data))
	case "json":
		c, err = xsel.ReadJson(bytes.NewReader(data))
	default:
		return nil, typ, fmt.Errorf("bad type")
	}
	return c, typ, err
}

func (s *Scenario) expectFile(tree, path string, data []byte, readErr error, fromStdin bool, g *xsel.Grammar) fileExpect {
	fe := fileExpect{path: path}
	if readErr != nil {
		fe.silent, fe.needDiag, fe.why = true, true, "unreadable"
		return fe
	}
	c, typ, err := s.parse(path, data, fromStdin)
	if err != nil {
		fe.silent = true
		fe.needDiag = typ != "untyped" && typ != ""
		fe.why = "unparsable or untyped: " + firstLine(err.Error())
		return fe
	}
	_, opts := s.bindings()
	res, err := safeExec(c, g, opts...)
	if err != nil {
		fe.silent, fe.why = true, "query error"
		return fe
	}
	prefix := path + ": "
	if s.N || fromStdin {
		prefix = ""
	}
	ns, isNS := res.(xsel.NodeSet)
	switch {
	case isNS && len(ns) == 0:
		fe.silent, fe.why = true, "empty node-set"
	case isNS && s.M:
		for _, n := range ns {
			fe.records = append(fe.records, record{prefix: prefix, node: n, isXML: true})
		}
	case isNS && s.A:
		for _, n := range ns {
			fe.records = append(fe.records, record{prefix: prefix, text: xsel.NodeSet{n}.String()})
		}
	default:
		fe.records = append(fe.records, record{prefix: prefix, text: res.String()})
	}
	return fe
}

func safeExec(c xsel.Cursor, g *xsel.Grammar, opts ...xsel.ContextApply) (r xsel.Result, err error) {
	defer func() {
		if p := recover(); p != nil {
			err = fmt.Errorf("panic: %v", p)
		}
	}()
	return xsel.Exec(c, g, opts...)
}

func firstLine(s string) string {
	if i := strings.IndexByte(s, '\n'); i >= 0 {
		return s[:i]
	}
	return s
}

// expand lists the files the tool must process, in order (own sorted walk).
func (s *Scenario) expand(tree string) []string {
	var out []string
	var walk func(rel string, top bool)
	walk = func(rel string, top bool) {
		st, err := os.Lstat(filepath.Join(tree, rel))
		if err != nil {
			return // diagnostic only
		}
		if !st.IsDir() {
			out = append(out, rel)
			return
		}
		if !s.R {
			return
		}
		ents, err := os.ReadDir(filepath.Join(tree, rel))
		if err != nil {
			return
		}
		names := []string{}
		for _, e := range ents {
			names = append(names, e.Name())
		}
		sort.Strings(names)
		for _, n := range names {
			walk(filepath.Join(rel, n), false)
		}
	}
	for _, a := range s.Args {
		if a == "-" {
			out = append(out, "-")
			continue
		}
		walk(filepath.Clean(a), true)
	}
	return out
}

// roundTrip checks that an -m record parses back to the selected node.
// Returns (signature, detail) or ("","").
func roundTrip(line string, n xsel.Cursor, want *model.Node) (string, string) {
	kind := model.KindOf(n.Node())
	if strings.ContainsAny(line, "\n") {
		return "m-record-multi-line", "record spans several lines"
	}
	switch kind {
	case model.KAttr, model.KNS, model.KRoot:
		// printed as pseudo processing instructions / node sequences: only single-lineness is judged
		return "", ""
	}
	wrapped := "<verif-wrap>" + line + "</verif-wrap>"
	c, err := xsel.ReadXml(strings.NewReader(wrapped))
	if err != nil {
		return "m-record-unparsable:" + kind.String(), fmt.Sprintf("record does not parse as XML: %v", firstLine(err.Error()))
	}
	got := model.Snap(c).Tree
	if len(got.Children) != 1 || got.Children[0].Kind != model.KElem {
		return "m-record-unparsable:" + kind.String(), "wrapper lost"
	}
	w := got.Children[0]
	var wantR, gotR string
	wantR = want.Render(false, false)
	if len(w.Children) != 1 {
		gotR = fmt.Sprintf("%d nodes", len(w.Children))
		if len(w.Children) == 0 && want.Kind == model.KText && want.Value == "" {
			return "", ""
		}
	} else {
		gotR = w.Children[0].Render(false, false)
	}
	if wantR != gotR {
		return "m-record-differs:" + classify(want, w), fmt.Sprintf("record parses back to a different node: %s", model.FirstDiff(wantR, gotR))
	}
	return "", ""
}

// classify names the shape of a round-trip difference (for known findings).
func classify(want, wrapper *model.Node) string {
	if len(wrapper.Children) != 1 {
		return "node-count"
	}
	got := wrapper.Children[0]
	var rec func(a, b *model.Node) string
	rec = func(a, b *model.Node) string {
		if a.Kind != b.Kind {
			return "kind"
		}
		switch a.Kind {
		case model.KElem:
			if a.Local != b.Local {
				return "element-name"
			}
			if a.Space != b.Space {
				if a.Space == "" {
					return "element-lost-no-namespace"
				}
				return "element-namespace"
			}
			if len(a.Attrs) != len(b.Attrs) {
				return "attribute-count"
			}
			am := map[string]string{}
			for _, x := range a.Attrs {
				am["{"+x.Space+"}"+x.Local] = x.Value
			}
			for _, x := range b.Attrs {
				v, ok := am["{"+x.Space+"}"+x.Local]
				if !ok {
					return "attribute-name"
				}
				if v != x.Value {
					return "attribute-value"
				}
			}
		case model.KText:
			if a.Value != b.Value {
				return "text"
			}
		case model.KComment:
			if a.Value != b.Value {
				if strings.Contains(a.Value, "\n") {
					return "comment-with-newline"
				}
				return "comment"
			}
		case model.KPI:
			if a.Target != b.Target || a.Value != b.Value {
				if strings.Contains(a.Value, "\n") {
					return "pi-with-newline"
				}
				return "pi"
			}
		}
		if len(a.Children) != len(b.Children) {
			return "child-count"
		}
		for i := range a.Children {
			if r := rec(a.Children[i], b.Children[i]); r != "" {
				return r
			}
		}
		return ""
	}
	if r := rec(want, got); r != "" {
		return r
	}
	return "other"
}

// serialisable reports whether a subtree can be written as XML at all; when
// not, the reason names the inherent limit.
func serialisable(n *model.Node) (bool, string) {
	okChars := func(v string) bool {
		if !utf8.ValidString(v) {
			return false // bytes that are not UTF-8 have no XML form
		}
		for _, r := range v {
			if !(r == 0x9 || r == 0xA || r == 0xD || (r >= 0x20 && r <= 0xD7FF) || (r >= 0xE000 && r <= 0xFFFD) || r >= 0x10000) {
				return false
			}
		}
		return true
	}
	switch n.Kind {
	case model.KElem:
		if !isXMLName(n.Local) {
			return false, "name"
		}
		for _, a := range n.Attrs {
			if !isXMLName(a.Local) {
				return false, "name"
			}
			if !okChars(a.Value) {
				return false, "char"
			}
		}
	case model.KText:
		if !okChars(n.Value) {
			return false, "char"
		}
	case model.KComment:
		if !okChars(n.Value) {
			return false, "char"
		}
		if strings.Contains(n.Value, "--") || strings.HasSuffix(n.Value, "-") {
			return false, "comment-dashes"
		}
	case model.KPI:
		if !okChars(n.Value) || strings.Contains(n.Value, "?>") || !isXMLName(n.Target) {
			return false, "char"
		}
	}
	for _, c := range n.Children {
		if ok, why := serialisable(c); !ok {
			return false, why
		}
	}
	return true, ""
}

var xmlNameCache = map[string]bool{}

// isXMLName: can this string be written as an element/attribute name that the
// XML reader used for the round trip accepts? Decided by that reader itself
// (encoding/xml implements the XML 1.0 name classes, which exclude e.g. emoji).
func isXMLName(s string) bool {
	if v, ok := xmlNameCache[s]; ok {
		return v
	}
	ok := s != "" && !strings.ContainsAny(s, " \t\r\n<>/=\"'&:") && utf8.ValidString(s)
	if ok {
		// the reader must see exactly one element with that name carrying one
		// attribute with that name ("!" or "?x" would otherwise pass as a
		// directive or a processing instruction)
		d := xml.NewDecoder(strings.NewReader("<" + s + " " + s + "=\"\"/>"))
		tok, err := d.Token()
		se, isStart := tok.(xml.StartElement)
		ok = err == nil && isStart && se.Name.Space == "" && se.Name.Local == s && len(se.Attr) == 1 && se.Attr[0].Name.Space == "" && se.Attr[0].Name.Local == s
		for ok {
			_, err := d.Token()
			if err != nil {
				ok = err == io.EOF
				break
			}
		}
	}
	if len(xmlNameCache) < 100000 {
		xmlNameCache[s] = ok
	}
	return ok
}

// dropEmptyText removes empty text nodes (a JSON "" value) and joins adjacent
// text nodes (the HTML5 parser leaves "a","b" next to each other after foster
// parenting): neither has an XML serialisation of its own, and the XPath data
// model has neither.
func dropEmptyText(n *model.Node) *model.Node {
	m := *n
	m.Children = nil
	for _, c := range n.Children {
		if c.Kind == model.KText && c.Value == "" {
			continue
		}
		if k := len(m.Children); c.Kind == model.KText && k > 0 && m.Children[k-1].Kind == model.KText {
			joined := *m.Children[k-1]
			joined.Value += c.Value
			m.Children[k-1] = &joined
			continue
		}
		m.Children = append(m.Children, dropEmptyText(c))
	}
	return &m
}

func tolerateNewlines(n *model.Node) (*model.Node, bool, bool) {
	m := *n
	hadC, hadP := false, false
	if (n.Kind == model.KComment || n.Kind == model.KPI) && strings.Contains(n.Value, "\n") {
		m.Value = strings.ReplaceAll(n.Value, "\n", "&#10;")
		hadC = n.Kind == model.KComment
		hadP = n.Kind == model.KPI
	}
	m.Children = nil
	for _, c := range n.Children {
		cc, a, b := tolerateNewlines(c)
		m.Children = append(m.Children, cc)
		hadC = hadC || a
		hadP = hadP || b
	}
	return &m, hadC, hadP
}

// verifyFile matches one input's stdout against its expected records.
func verifyFile(o *simkit.Outcome, f, stdout string, fe fileExpect, argv []string) {
	const P = "C20"
	pos := 0
	for k, r := range fe.records {
		lost := !strings.HasPrefix(stdout[pos:], r.prefix)
		if !lost && r.isXML && strings.IndexByte(stdout[pos+len(r.prefix):], '\n') < 0 {
			lost = true
		}
		if lost {
			if r.isXML && pseudoPIUnprintable(fe.records, k) {
				o.Violate(P, "m-record-lost", "m-pseudo-pi-unprintable", "input %s: -m stops printing at a selected attribute/namespace node that cannot be written as a pseudo processing instruction (namespaced attribute, or value containing ?>); the remaining %d record(s) of the file are lost\nargv=%q\nstdout=%q", f, len(fe.records)-k, argv, trunc(stdout, 400))
				return
			}
			if r.isXML {
				if ok, why := anyUnserialisableFrom(fe.records, k); !ok {
					unserialisable(o, why, f, argv, stdout)
					return
				}
			}
			o.Violate(P, "record-mismatch", "record-prefix", "input %s: expected record %d to start with %q at offset %d of its stdout, got %q\nargv=%q\nstdout=%q", f, k, r.prefix, pos, trunc(stdout[pos:], 120), argv, trunc(stdout, 600))
			return
		}
		pos += len(r.prefix)
		if !r.isXML {
			want := r.text + "\n"
			if !strings.HasPrefix(stdout[pos:], want) {
				o.Violate(P, "record-mismatch", "record-text", "input %s: expected record %q at offset %d of its stdout, got %q\nargv=%q\nstdout=%q", f, trunc(want, 200), pos, trunc(stdout[pos:], 200), argv, trunc(stdout, 600))
				return
			}
			pos += len(want)
			o.Probe("string-record")
			if strings.Contains(r.text, "\n") {
				o.Probe("multi-line-string-record")
			}
			continue
		}
		nl := strings.IndexByte(stdout[pos:], '\n')
		if nl < 0 {
			o.Violate(P, "record-mismatch", "m-record-missing", "input %s: -m record %d missing\nargv=%q\nstdout=%q", f, k, argv, trunc(stdout, 600))
			return
		}
		line := stdout[pos : pos+nl]
		pos += nl + 1
		o.Probe("m-record:" + model.KindOf(r.node.Node()).String())
		want := dropEmptyText(model.Subtree(r.node))
		if ok, why := serialisable(want); !ok {
			unserialisable(o, why, f, argv, stdout)
			continue
		}
		// tolerance with a witness: newlines inside comments / PI data come back
		// as the literal text &#10; (listed finding); everything else in the same
		// record is still compared
		tolerated, hadC, hadP := tolerateNewlines(want)
		if sig, detail := roundTrip(line, r.node, tolerated); sig != "" {
			o.Violate(P, "m-round-trip", sig, "input %s: -m record %q: %s\nargv=%q", f, trunc(line, 300), detail, argv)
		} else {
			if hadC {
				o.Violate(P, "m-round-trip", "m-record-differs:comment-with-newline", "input %s: -m record %q: a newline inside a comment comes back as the literal text &#10;\nargv=%q", f, trunc(line, 300), argv)
			}
			if hadP {
				o.Violate(P, "m-round-trip", "m-record-differs:pi-with-newline", "input %s: -m record %q: a newline inside processing-instruction data comes back as the literal text &#10;\nargv=%q", f, trunc(line, 300), argv)
			}
		}
	}
	if pos != len(stdout) {
		o.Violate(P, "record-mismatch", "extra-output", "input %s: %d unexpected trailing bytes on stdout: %q\nargv=%q\nstdout=%q", f, len(stdout)-pos, trunc(stdout[pos:], 200), argv, trunc(stdout, 600))
	}
}

func unserialisable(o *simkit.Outcome, why, f string, argv []string, stdout string) {
	switch why {
	case "name":
		o.Violate("C20", "m-round-trip", "m-unserialisable-name", "input %s: -m selects a node whose element/attribute names are not XML names (every JSON document: #obj, #arr, arbitrary keys); the record cannot parse back\nargv=%q\nstdout=%q", f, argv, trunc(stdout, 300))
	default:
		// characters outside the XML Char production, comments containing "--":
		// no XML serialisation exists; outside the statement's reach
		o.Probe("m-record-not-judged:" + why)
	}
}

func pseudoPIUnprintable(recs []record, from int) bool {
	for _, r := range recs[from:] {
		if r.node == nil {
			continue
		}
		n := model.Subtree(r.node)
		switch n.Kind {
		case model.KAttr:
			if n.Space != "" || strings.Contains(n.Value, "?>") || !isXMLName(n.Local) {
				return true
			}
		case model.KNS:
			if strings.Contains(n.Value, "?>") {
				return true
			}
		}
		return false
	}
	return false
}

func anyUnserialisableFrom(recs []record, from int) (bool, string) {
	if from < len(recs) && recs[from].node != nil {
		return serialisable(dropEmptyText(model.Subtree(recs[from].node)))
	}
	return true, ""
}

// Run is the C20 engine.
func Run(t *simkit.Tape, o *simkit.Outcome, full bool) {
	const P = "C20"
	s := Gen(t, false)
	// flags beyond the scheduling scenario
	if t.Bool(1, 4) {
		s.T = []string{"xml", "html", "json", "bad"}[t.Pick(4, 3, 3, 1)]
	}
	s.U = t.Bool(1, 8)
	if t.Bool(1, 3) {
		s.NS = append(s.NS, [2]string{"p", "urn:a"})
		if t.Bool(1, 2) {
			s.NS = append(s.NS, [2]string{"q", "urn:b"})
		}
	}
	if t.Bool(1, 3) {
		s.Vars = append(s.Vars, [2]string{"s", []string{"a", "en", "x y", "", " x ", "  ", "\t", "en ", " a", "\u00a0b\u00a0"}[t.Pick(3, 3, 3, 2, 2, 1, 1, 1, 1, 1)]})
		if len(s.NS) > 0 && t.Bool(1, 2) {
			s.Vars = append(s.Vars, [2]string{"p:k", "v"})
		}
	}
	if t.Bool(1, 6) {
		if t.Bool(3, 4) {
			// values with leading / trailing white space must reach the decoder untouched
			s.Entities = append(s.Entities, [2]string{"ent", []string{"EV", " ", " pad ", "\t", "\u00a0", "é "}[t.Pick(4, 1, 1, 1, 1, 1)]})
		}
		if t.Bool(1, 2) {
			s.U = true // -u and -e together: both configure the same decoder
		}
		// some XML files reference the entity (with -e it expands; without, the file is unparsable)
		for i := range s.Tree {
			f := &s.Tree[i]
			if f.Kind == "xml" && f.Fault == "" && t.Bool(1, 2) {
				if k := bytes.LastIndex(f.Content, []byte("</")); k > 0 {
					f.Content = append(append(append([]byte{}, f.Content[:k]...), []byte("&ent;")...), f.Content[k:]...)
					f.Fault = "references-entity"
				}
			}
		}
	}
	// expression from the workload generator, restricted to the bound names
	large := false
	for _, f := range s.Tree {
		if f.Fault == "large" {
			large = true
		}
	}
	if t.Bool(2, 3) && !large { // generated expressions can be quadratic: keep them off the large file
		env := &model.ExprEnv{ElemNames: []string{"a", "b", "c", "item", "div", "p", "span", "#obj", "#arr", "id", "name", "x"}, AttrNames: []string{"a", "b", "id", "class", "href"}, PITargets: []string{"pi", "t"}}
		for _, kv := range s.NS {
			env.Prefixes = append(env.Prefixes, kv[0])
		}
		for _, kv := range s.Vars {
			env.StrVars = append(env.StrVars, kv[0])
		}
		s.Expr, _ = model.GenExprAny(t, env)
	}
	if s.M && t.Bool(1, 2) {
		// -m is about serialising subtrees: select elements that have some
		s.Expr = []string{"//*", "/*", "/*/*", "//*[*]", "//node()", "//*[*/*]"}[t.Pick(3, 3, 2, 2, 1, 1)]
	}
	if len(s.Vars) > 0 && t.Bool(1, 3) {
		// expressions whose output shows the variable's exact value
		s.Expr = []string{"concat('[', $s, ']')", "string-length($s)", "$s", "//*[. = $s]", "//*[contains(., $s)]", "translate($s, ' ', '_')", "//@*[. = $s]"}[t.Draw(7)]
		o.Probe("expression-shows-variable-value")
	}
	var stdin []byte
	if t.Bool(1, 6) {
		kind := []string{"xml", "html", "json"}[t.Draw(3)]
		stdin = genContent(t, kind)
		pos := t.Draw(len(s.Args) + 1)
		s.Args = append(s.Args[:pos:pos], append([]string{"-"}, s.Args[pos:]...)...)
		if s.T == "" && t.Bool(4, 5) {
			s.T = kind
		}
	}
	s.Stdin = stdin
	s.C = 1
	if full {
		o.Scenario = s.Render()
	}
	work, err := WorkDir(o.Index)
	if err != nil {
		o.HarnessDoubt("scratch: %v", err)
		return
	}
	if os.Getenv("VERIF_KEEP") == "" {
		defer os.RemoveAll(work)
	}
	tree := filepath.Join(work, "tree")
	if err := s.Materialise(tree); err != nil {
		o.HarnessDoubt("materialise: %v", err)
		return
	}
	argv := s.Argv(1)
	run, rerr := RunSim(work, tree, argv, stdin, nil, 2, 0)
	o.Evals++
	if rerr != nil {
		o.HarnessDoubt("sim: %v", rerr)
		return
	}
	if run.ExitErr != "" {
		o.Violate(P, "cli-process-abort", "cli-process-abort", "the process died: %s\nargv=%q", run.ExitErr, argv)
		return
	}
	if run.Res.End == "harness" {
		o.HarnessDoubt("scheduler P gave up (%s) argv=%q", run.Res.Note, argv)
		return
	}
	if run.Res.End == "os-exit" {
		o.Probe("tool-ended-with-os-exit")
	}
	if !run.Ended() {
		o.Violate(P, "cli-no-termination", "cli-"+run.Res.End, "the tool did not end normally (%s)\nargv=%q", run.Res.End, argv)
		return
	}
	o.Steps += run.Res.Steps
	stdout, stderr := string(run.Stdout), string(run.Stderr)

	// global preconditions under which nothing is printed
	g, gerr := xsel.BuildExpr(s.Expr)
	if s.T == "bad" || gerr != nil || len(s.Args) == 0 {
		o.Probe("global-diagnostic-case")
		if stdout != "" {
			o.Violate(P, "stdout-on-global-error", "stdout-on-global-error", "invalid -t / expression / arguments but stdout is not empty: %q\nargv=%q", trunc(stdout, 300), argv)
		}
		if stderr == "" {
			o.Violate(P, "no-diagnostic", "no-diagnostic:global", "invalid -t / expression / arguments but nothing on stderr\nargv=%q", argv)
		}
		o.NonTrivial = false
		o.Fingerprint = simkit.Hash64(fmt.Sprint(argv))
		return
	}
	files := s.expand(tree)
	diagNeeded := 0
	nRecords := 0
	var perFile []string
	single := *s
	for _, f := range files {
		// the same binary on this one input: isolates the file's own output
		single.Args = []string{f}
		var in []byte
		if f == "-" {
			in = stdin
		}
		r1, e1 := RunSim(work, tree, single.Argv(1), in, nil, 2, 0)
		o.Evals++
		if e1 == nil && r1.ExitErr == "" && r1.Res.End == "harness" {
			o.HarnessDoubt("scheduler P gave up (%s)", r1.Res.Note)
			return
		}
		if e1 != nil || r1.ExitErr != "" || !r1.Ended() {
			o.Violate(P, "cli-no-termination", "cli-single-file-run", "the tool did not end normally on the single input %s\nargv=%q", f, single.Argv(1))
			return
		}
		out := string(r1.Stdout)
		perFile = append(perFile, out)
		var fe fileExpect
		if f == "-" {
			fe = s.expectFile(tree, "-", stdin, nil, true, &g)
		} else {
			data, rerr := os.ReadFile(filepath.Join(tree, f))
			fe = s.expectFile(tree, f, data, rerr, false, &g)
		}
		if fe.needDiag {
			diagNeeded++
			o.Fault("file-fault:" + strings.SplitN(fe.why, ":", 2)[0])
			if len(r1.Stderr) == 0 {
				o.Violate(P, "no-diagnostic", "no-diagnostic:file", "input %s is %s but nothing was written to stderr\nargv=%q", f, fe.why, single.Argv(1))
			}
		}
		nRecords += len(fe.records)
		verifyFile(o, f, out, fe, single.Argv(1))
	}
	// unreadable or unparsable inputs do not affect the output for other files:
	// stdout of the whole set is the per-input blocks, each once and contiguous.
	// The statement does not fix the order of the blocks (a rewritten directory
	// walk may visit files before sub-directories), so any order is accepted;
	// how often it is the argument / walk order is only counted.
	if want := strings.Join(perFile, ""); want == stdout {
		o.Probe("blocks-in-argument-or-walk-order")
	} else if MatchBlocks(stdout, perFile) {
		o.Probe("blocks-in-another-order")
	} else {
		o.Violate(P, "file-set-output", "file-set-output", "stdout for the whole set is not made of the blocks the tool prints for each input alone (each once, contiguous, in any order)\nargv=%q\nstdout=%q\nper input=%q", argv, trunc(stdout, 500), truncList(perFile, 500))
	}
	if diagNeeded > 0 && stderr == "" {
		o.Violate(P, "no-diagnostic", "no-diagnostic:set", "%d unreadable/unparsable input(s) but nothing on stderr\nargv=%q", diagNeeded, argv)
	}
	o.ProbeN("files-processed", len(files))
	o.NonTrivial = len(files) >= 1 && (nRecords >= 1 || diagNeeded >= 1)
	o.Fingerprint = simkit.Hash64(fmt.Sprint(argv), fmt.Sprint(s.Render()["files"]), string(stdin))
}

package cli

import (
	"fmt"
	"os"
	"path/filepath"
	"strings"

	"verif/simkit"
)

// Sched is the CLI half of C14: `-c N` under a tape-drawn schedule prints the
// same per-file blocks as `-c 1`, each contiguous and intact, in some order.
func Sched(t *simkit.Tape, o *simkit.Outcome, full bool) {
	const P = "C14"
	s := Gen(t, true)
	var stdin []byte
	if t.Bool(1, 8) {
		// one input comes from stdin (its worker reads os.Stdin concurrently with the file workers)
		kind := []string{"xml", "html", "json"}[t.Draw(3)]
		stdin = genContent(t, kind)
		s.T = kind
		pos := t.Draw(len(s.Args) + 1)
		s.Args = append(s.Args[:pos:pos], append([]string{"-"}, s.Args[pos:]...)...)
		o.Probe("stdin-input")
	}
	work, err := WorkDir(o.Index)
	if err != nil {
		o.HarnessDoubt("scratch: %v", err)
		return
	}
	if os.Getenv("VERIF_KEEP") == "" {
		defer os.RemoveAll(work)
	}
	tree := filepath.Join(work, "tree")
	if err := s.Materialise(tree); err != nil {
		o.HarnessDoubt("materialise: %v", err)
		return
	}
	// the processed files, in walk order, as the tool itself lists them with -c 1:
	// one reference run per file argument expansion. The expansion is done by
	// running the tool with -c 1 on each single file.
	var files []string
	for _, f := range s.Tree {
		if !f.IsDir {
			files = append(files, f.Rel)
		}
	}
	if full {
		o.Scenario = s.Render()
	}
	// reference blocks: the same binary, -c 1, one file at a time
	single := *s
	blocks := map[string]string{}
	var processed []string
	refRun, rerr := RunSim(work, tree, s.Argv(1), stdin, nil, 2, 0)
	if rerr != nil || refRun.ExitErr != "" || !refRun.Ended() {
		o.HarnessDoubt("reference run (-c 1) did not end normally: err=%v end=%q exit=%q note=%q steps=%d argv=%q", rerr, refRun.Res.End, refRun.ExitErr, refRun.Res.Note, refRun.Res.Steps, s.Argv(1))
		return
	}
	o.Evals++
	if stdin != nil {
		files = append(files, "-")
	}
	for _, f := range files {
		single.Args = []string{f}
		single.R = false
		var in []byte
		if f == "-" {
			in = stdin
		}
		r, e := RunSim(work, tree, single.Argv(1), in, nil, 2, 0)
		o.Evals++
		if e != nil || r.ExitErr != "" || !r.Ended() {
			o.HarnessDoubt("per-file reference run did not end normally: %v %s %s", e, r.ExitErr, r.Res.End)
			return
		}
		blocks[f] = string(r.Stdout)
	}
	// which files does the whole-set run process? every file argument, and the
	// files below directory arguments when -r is given: decide from the -c 1
	// whole-set output by matching blocks (each file at most as often as listed).
	for _, a := range s.Args {
		if a == "-" {
			processed = append(processed, "-")
			continue
		}
		st, e := os.Lstat(filepath.Join(tree, a))
		if e != nil {
			continue
		}
		if !st.IsDir() {
			processed = append(processed, filepath.Clean(a))
			continue
		}
		if !s.R {
			continue
		}
		filepath.WalkDir(filepath.Join(tree, a), func(p string, d os.DirEntry, err error) error {
			if err == nil && !d.IsDir() {
				rel, _ := filepath.Rel(tree, p)
				processed = append(processed, rel)
			}
			return nil
		})
	}
	var want []string
	for _, f := range processed {
		b := blocks[f]
		// the per-file run printed the path as given on ITS command line; the
		// whole-set run prints the walked path, which is textually the same for
		// our relative names except below "."
		want = append(want, b)
	}
	if !MatchBlocks(string(refRun.Stdout), want) {
		// "." arguments print paths like "d0/f1.xml" identically; if this fails the
		// harness's idea of the processed set is wrong, not the tool
		o.HarnessDoubt("the -c 1 output is not the concatenation of the per-file blocks: harness expansion differs\nargv=%v\nstdout=%q\nblocks=%q", s.Argv(1), refRun.Stdout, want)
		return
	}
	multi := 0
	for _, b := range want {
		if strings.Count(b, "\n") >= 2 {
			multi++
		}
	}
	// concurrent runs under drawn schedules
	nruns := 2 + t.Draw(3)
	interleaved := false
	sigParts := []string{}
	for k := 0; k < nruns; k++ {
		words := make([]uint32, 96)
		for i := range words {
			words[i] = uint32(t.Draw(64))
		}
		strategy := t.Pick(4, 3, 2, 2)
		depth := 1 + t.Draw(3)
		r, e := RunSim(work, tree, s.Argv(s.C), stdin, words, strategy, depth)
		o.Evals++
		if e != nil {
			o.HarnessDoubt("sim run: %v", e)
			return
		}
		if r.ExitErr != "" {
			o.Violate(P, "cli-process-abort", "cli-process-abort", "the -c %d process died under schedule #%d: %s\nargv=%v", s.C, k, r.ExitErr, s.Argv(s.C))
			continue
		}
		o.Steps += r.Res.Steps
		o.Fault(fmt.Sprintf("cli-strategy-%d", strategy))
		for _, reason := range simkit.SortedKeys(r.Res.BlockedSeen) {
			// how often a blocked task was looked at depends on timing: count runs, not looks
			o.Probe("blocked:" + reason)
		}
		if r.Res.MaxParallel >= 2 {
			o.Probe("two-or-more-workers-live")
			interleaved = true
		}
		if r.Res.MainReturnedWithParked > 0 {
			o.Probe("main-returned-with-unfinished-worker")
		}
		switch r.Res.End {
		case "main-exit", "os-exit":
		case "deadlock":
			o.Violate(P, "cli-deadlock", "cli-deadlock", "-c %d deadlocks under schedule #%d (no runnable task, main not finished) after %d steps\nargv=%v", s.C, k, r.Res.Steps, s.Argv(s.C))
			continue
		case "step-budget":
			o.Violate(P, "cli-no-termination", "cli-no-termination", "-c %d did not terminate within %d scheduler steps under schedule #%d\nargv=%v", s.C, r.Res.Steps, k, s.Argv(s.C))
			continue
		default:
			o.HarnessDoubt("scheduler P gave up: %s", r.Res.Note)
			return
		}
		if !MatchBlocks(string(r.Stdout), want) {
			o.Violate(P, "cli-blocks-differ", "cli-blocks-differ", "-c %d under schedule #%d (strategy %d) does not print the per-file blocks of -c 1, each once, contiguous and intact\nargv=%v\n-c %d stdout: %q\n-c 1 blocks: %q", s.C, k, strategy, s.Argv(s.C), s.C, trunc(string(r.Stdout), 700), truncList(want, 700))
		}
		sigParts = append(sigParts, fmt.Sprint(r.Res.Switches, r.Res.Steps))
	}
	o.ProbeN("files-with-multi-record-blocks", multi)
	o.NonTrivial = interleaved && len(want) >= 2
	o.Fingerprint = simkit.Hash64(fmt.Sprint(s.Argv(s.C)), fmt.Sprint(s.Render()["files"]), strings.Join(sigParts, ";"))
}

func trunc(s string, n int) string {
	if len(s) > n {
		return s[:n] + "…"
	}
	return s
}

func truncList(l []string, n int) []string {
	out := []string{}
	for _, x := range l {
		out = append(out, trunc(x, n/(len(l)+1)+20))
	}
	return out
}

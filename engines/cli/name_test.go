package cli
import "testing"
func TestIsXMLName(t *testing.T) {
	for _, n := range []string{"a", "x-y", "n.1", "_u", "é", "日本"} { if !isXMLName(n) { t.Errorf("%q rejected", n) } }
	for _, n := range []string{"!", "?", "?x", "!--", "!a", "1a", "-a", "", "a b", "#obj", "a:b", "yé😀1"} { if isXMLName(n) { t.Errorf("%q accepted", n) } }
}

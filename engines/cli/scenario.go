// Package cli drives the real command-line tool (built at check time as an
// instrumented test binary that runs main() under scheduler P): the simulated
// parts are argv, stdin, the directory tree with its file faults (seam S7) and
// the goroutine schedule of the -c N workers (seam S6).
package cli

import (
	"encoding/json"
	"fmt"
	"os"
	"os/exec"
	"path/filepath"
	"sort"
	"strings"

	"verif/engines/stream"
	"verif/model"
	"verif/simkit"
)

type FileSpec struct {
	Rel     string
	Content []byte
	Symlink string // non-empty: a symlink with this target
	IsDir   bool
	Fault   string
	Kind    string // xml, html, json, other
}

type Scenario struct {
	Tree     []FileSpec
	Args     []string // positional arguments
	Expr     string
	Stdin    []byte
	A, M, N  bool
	R, U     bool
	T        string
	C        int
	NS       [][2]string
	Vars     [][2]string
	Entities [][2]string
	NoExpr   bool
	Order    []int // drawn permutation of the flag groups
}

// Argv renders the complete argument list; the flag groups appear in the
// scenario's drawn order (flag order must not matter to the tool).
func (s *Scenario) Argv(c int) []string {
	var groups [][]string
	add := func(g ...string) { groups = append(groups, g) }
	if s.A {
		add("-a")
	}
	if s.M {
		add("-m")
	}
	if s.N {
		add("-n")
	}
	if s.R {
		add("-r")
	}
	if s.U {
		add("-u")
	}
	if s.T != "" {
		add("-t", s.T)
	}
	add("-c", fmt.Sprint(c))
	for _, kv := range s.NS {
		add("-s", kv[0]+"="+kv[1])
	}
	for _, kv := range s.Vars {
		add("-v", kv[0]+"="+kv[1])
	}
	for _, kv := range s.Entities {
		add("-e", kv[0]+"="+kv[1])
	}
	if !s.NoExpr {
		add("-x", s.Expr)
	}
	// apply the drawn order (a list of sort keys; missing keys keep position)
	idx := make([]int, len(groups))
	for i := range idx {
		idx[i] = i
	}
	sort.SliceStable(idx, func(a, b int) bool {
		ka, kb := idx[a]*1000, idx[b]*1000
		if idx[a] < len(s.Order) {
			ka = s.Order[idx[a]]
		}
		if idx[b] < len(s.Order) {
			kb = s.Order[idx[b]]
		}
		return ka < kb
	})
	var a []string
	for _, i := range idx {
		a = append(a, groups[i]...)
	}
	a = append(a, s.Args...)
	return a
}

func (s *Scenario) Render() map[string]any {
	files := []string{}
	for _, f := range s.Tree {
		switch {
		case f.IsDir:
			files = append(files, f.Rel+"/")
		case f.Symlink != "":
			files = append(files, f.Rel+" -> "+f.Symlink+" ["+f.Fault+"]")
		default:
			c := string(f.Content)
			if len(c) > 300 {
				c = c[:300] + "…"
			}
			tag := ""
			if f.Fault != "" {
				tag = " [" + f.Fault + "]"
			}
			files = append(files, f.Rel+tag+": "+c)
		}
	}
	return map[string]any{"argv": s.Argv(s.C), "files": files, "stdin": string(s.Stdin)}
}

// Materialise creates the tree below dir.
func (s *Scenario) Materialise(dir string) error {
	for _, f := range s.Tree {
		p := filepath.Join(dir, f.Rel)
		switch {
		case f.IsDir:
			if err := os.MkdirAll(p, 0o755); err != nil {
				return err
			}
		case f.Symlink != "":
			os.MkdirAll(filepath.Dir(p), 0o755)
			if err := os.Symlink(f.Symlink, p); err != nil {
				return err
			}
		default:
			os.MkdirAll(filepath.Dir(p), 0o755)
			if err := os.WriteFile(p, f.Content, 0o644); err != nil {
				return err
			}
		}
	}
	return nil
}

var cliExprs = []string{"//*", "//text()", "//node()", "//@*", "/*", "//*[1]", "count(//*)", "string(/)", "//comment()", "/", "//*[not(*)]", "//*/@*", "/*/*", "//processing-instruction()", "name(/*)", "//*[last()]", "1 + 1", "//nothing", "'lit'", "//*[text()]", "/*/@*", "//*/namespace::*", "//@*[1]", "//processing-instruction()[1]"}

func genContent(t *simkit.Tape, kind string) []byte {
	switch kind {
	case "json":
		cfg := model.DrawJSONConfig(t)
		cfg.TopLevel = 1
		if cfg.MaxNodes < 8 {
			cfg.MaxNodes = 8
		}
		return model.SerialiseJSON(t, cfg, model.GenJSON(t, cfg))
	case "html":
		cfg := model.DrawHTMLConfig(t)
		cfg.Doctype = 0
		cfg.Soup = false
		cfg.Huge = 0
		cfg.Colons = false
		if cfg.Deep > 130 {
			// -m serialises every selected element's subtree: quadratic in the depth
			// (8.6 million scheduler steps for 513 levels); the reader engine keeps the deeper pages
			cfg.Deep = 130
		}
		if cfg.MaxNodes > 25 {
			cfg.MaxNodes = 25
		}
		return model.GenHTML(t, cfg)
	}
	cfg := model.DrawXMLConfig(t)
	if cfg.MaxNodes < 8 {
		cfg.MaxNodes = 8
	}
	if cfg.MaxDepth < 2 {
		cfg.MaxDepth = 2
	}
	cfg.EmptyCDATA = false
	cfg.Entities = false
	if t.Bool(1, 4) {
		cfg.Namespaces, cfg.NSMix = true, true
	}
	doc := model.GenXML(t, cfg)
	return model.SerialiseXML(t, cfg, doc).Bytes
}

var extsFor = map[string][]string{"xml": {".xml", ".xml", ".xhtml", ".svg"}, "html": {".html", ".htm"}, "json": {".json"}}

// Gen draws a scenario. sched=true biases towards many parsable multi-record
// files and -c N; sched=false explores flags and file faults more widely.
func Gen(t *simkit.Tape, sched bool) *Scenario {
	s := &Scenario{C: 1}
	nfiles := 1 + t.Draw(6)
	if sched {
		nfiles = 2 + t.Draw(7)
	}
	dirs := []string{""}
	if t.Bool(1, 3) {
		nd := 1 + t.Draw(3)
		for i := 0; i < nd; i++ {
			parent := dirs[t.Draw(len(dirs))]
			d := filepath.Join(parent, fmt.Sprintf("d%d", i))
			dirs = append(dirs, d)
			s.Tree = append(s.Tree, FileSpec{Rel: d, IsDir: true})
		}
	}
	faultW := []int{12, 1, 1, 1, 1, 1, 1, 1}
	if sched {
		faultW = []int{20, 1, 1, 1, 1, 1, 0, 1}
		if t.Bool(1, 6) {
			faultW[6] = 12 // several inputs whose type cannot be detected (error paths of the workers)
		}
	}
	oddNames := t.Bool(1, 4)
	for i := 0; i < nfiles; i++ {
		kind := []string{"xml", "html", "json"}[t.Pick(4, 2, 2)]
		dir := dirs[t.Draw(len(dirs))]
		ext := extsFor[kind][t.Draw(len(extsFor[kind]))]
		base := fmt.Sprintf("f%d", i)
		if oddNames && t.Bool(1, 2) {
			// names that are hostile to printf-style formatting, shells and splitting
			base = fmt.Sprintf("%s%d", []string{"100%", "%s", "a b", "é", "x=y", "%d%%", "n-", "a:b"}[t.Draw(8)], i)
		}
		f := FileSpec{Rel: filepath.Join(dir, base+ext), Kind: kind}
		switch t.Pick(faultW...) {
		case 0:
			f.Content = genContent(t, kind)
		case 1:
			f.Content = genContent(t, kind)
			if len(f.Content) > 1 {
				f.Content = f.Content[:1+t.Draw(len(f.Content)-1)]
			}
			f.Fault = "truncated"
		case 2:
			c, k := stream.Corrupt(t, genContent(t, kind), false)
			f.Content, f.Fault = c, "corrupted-"+k
		case 3:
			f.Fault = "empty"
		case 4:
			f.Symlink, f.Fault = "no-such-target", "dangling-symlink"
		case 5:
			f.Symlink, f.Fault = ".", "symlink-to-directory"
		case 6:
			f.Content = genContent(t, kind)
			f.Rel = filepath.Join(dir, fmt.Sprintf("f%d%s", i, []string{".txt", "", ".bin", ".XML"}[t.Draw(4)]))
			f.Fault = "unsupported-or-unknown-extension"
			f.Kind = "other"
		case 7:
			// a symlink to an earlier regular, parsable file of the same kind: processed like a file
			for _, prev := range s.Tree {
				if !prev.IsDir && prev.Symlink == "" && prev.Fault == "" && filepath.Ext(prev.Rel) == ext && filepath.Dir(prev.Rel) == filepath.Dir(f.Rel) {
					f.Symlink, f.Fault = filepath.Base(prev.Rel), "symlink-to-file"
					break
				}
			}
			if f.Symlink == "" {
				f.Content = genContent(t, kind)
			}
		}
		s.Tree = append(s.Tree, f)
	}
	bigDen := 14
	if sched {
		bigDen = 8
	}
	if t.Bool(1, bigDen) {
		// large, regular files (size swarm: output blocks beyond 64 KiB). In
		// scheduled scenarios usually two of them, so that two workers are in
		// their (long) printing phases at the same time.
		nbig := 1
		if sched && t.Bool(2, 3) {
			nbig = 2
		}
		for k := 0; k < nbig; k++ {
			n := 700 + t.Draw(200)
			var b strings.Builder
			b.WriteString("<big>")
			for i := 0; i < n; i++ {
				fmt.Fprintf(&b, "<row id=\"%d\"><!--c%d-->value %d of large file %d, padded so that the block of this one file is well beyond 64 KiB</row>", i, i, i, k)
			}
			b.WriteString("</big>")
			s.Tree = append(s.Tree, FileSpec{Rel: fmt.Sprintf("f%d-big%d.xml", nfiles, k), Kind: "xml", Content: []byte(b.String()), Fault: "large"})
		}
	}
	// arguments: files individually, or directories
	if len(dirs) > 1 && t.Bool(1, 2) {
		s.R = t.Bool(3, 4)
		s.Args = append(s.Args, ".")
		if t.Bool(1, 3) {
			s.Args = append(s.Args, dirs[1])
		}
	} else {
		order := []string{}
		for _, f := range s.Tree {
			if !f.IsDir {
				order = append(order, f.Rel)
			}
		}
		// drawn permutation
		for i := len(order) - 1; i > 0; i-- {
			j := t.Draw(i + 1)
			order[i], order[j] = order[j], order[i]
		}
		s.Args = order
		if len(order) > 0 && t.Bool(1, 8) {
			// the same input named twice: two blocks, each complete
			pos := t.Draw(len(s.Args) + 1)
			dup := order[t.Draw(len(order))]
			s.Args = append(s.Args[:pos:pos], append([]string{dup}, s.Args[pos:]...)...)
		}
		if len(dirs) > 1 && t.Bool(1, 2) {
			s.Args = append(s.Args, dirs[1])
			s.R = t.Bool(1, 2)
		}
		if t.Bool(1, 8) {
			// a path that does not exist, anywhere in the argument list (the inputs
			// before and after it are processed as usual)
			pos := t.Draw(len(s.Args) + 1)
			s.Args = append(s.Args[:pos:pos], append([]string{"missing-file.xml"}, s.Args[pos:]...)...)
		}
	}
	s.Expr = cliExprs[t.Draw(len(cliExprs))]
	if sched {
		s.Expr = cliExprs[t.Pick(6, 4, 4, 4, 2, 2, 1, 1, 1, 1, 1, 2, 1, 1, 1, 1, 1, 1, 1, 1, 2, 1, 1, 1)]
	}
	switch t.Pick(3, 3, 3) {
	case 1:
		s.A = true
	case 2:
		s.M = true
	}
	if t.Bool(1, 6) {
		s.A, s.M = true, true
	}
	s.N = t.Bool(1, 3)
	if sched {
		s.C = []int{2, 3, 4, 8, 64}[t.Pick(3, 3, 3, 2, 1)]
	}
	if t.Bool(1, 2) {
		for i := 0; i < 16; i++ {
			s.Order = append(s.Order, t.Draw(1000))
		}
	}
	return s
}

// SimResult mirrors verifhook.PResult.
type SimResult struct {
	End                    string
	Steps                  int
	Tasks                  int
	Switches               int
	Trace                  []struct{ Task, Site int }
	Note                   string
	BlockedSeen            map[string]int
	MainReturnedWithParked int
	MaxParallel            int
}

type SimRun struct {
	Stdout, Stderr []byte
	Res            SimResult
	ExitErr        string
	ExitCode       int
}

// Ended reports whether the run ended the way a process ends: main returned
// or the tool called os.Exit.
func (r *SimRun) Ended() bool { return r.Res.End == "main-exit" || r.Res.End == "os-exit" }

// RunSim executes the instrumented CLI once (one process per run).
// LightDiv: library yields park once in LightDiv (0: never; reference runs).
var LightDiv = 0

func RunSim(work, dir string, argv []string, stdin []byte, words []uint32, strategy, depth int) (*SimRun, error) {
	bin := os.Getenv("VERIF_CLI_BIN")
	if bin == "" {
		return nil, fmt.Errorf("VERIF_CLI_BIN not set")
	}
	sc := map[string]any{"args": argv, "stdout": filepath.Join(work, "stdout"), "stderr": filepath.Join(work, "stderr"), "result": filepath.Join(work, "result.json"),
		"words": words, "strategy": strategy, "depth": depth, "est_steps": 400, "max_steps": 25000000, "dir": dir, "light_div": lightDivFor(words)}
	if stdin != nil {
		p := filepath.Join(work, "stdin")
		if err := os.WriteFile(p, stdin, 0o644); err != nil {
			return nil, err
		}
		sc["stdin"] = p
	}
	os.Remove(filepath.Join(work, "result.json"))
	b, _ := json.Marshal(sc)
	scPath := filepath.Join(work, "scenario.json")
	if err := os.WriteFile(scPath, b, 0o644); err != nil {
		return nil, err
	}
	cmd := exec.Command(bin, "-test.run", "^TestVerifSim$", "-test.timeout", "120s")
	cmd.Env = append(os.Environ(), "VERIF_SIM="+scPath, "GOMAXPROCS=1")
	out, err := cmd.CombinedOutput()
	run := &SimRun{}
	run.Stdout, _ = os.ReadFile(filepath.Join(work, "stdout"))
	run.Stderr, _ = os.ReadFile(filepath.Join(work, "stderr"))
	rb, rerr := os.ReadFile(filepath.Join(work, "result.json"))
	if rerr != nil {
		// No scheduler result: the process ended inside main(). A crash names
		// itself on the real stderr; otherwise the tool called os.Exit (exit
		// status is not fixed by any property): stdout/stderr files are complete
		// up to that point, like a real process.
		text := string(out)
		crashed := strings.Contains(text, "panic:") || strings.Contains(text, "fatal error:") || strings.Contains(text, "test timed out") || strings.Contains(text, "signal:") || strings.Contains(text, "goroutine ")
		if ee, ok := err.(*exec.ExitError); ok && !crashed && ee.ExitCode() >= 0 {
			run.Res.End = "os-exit"
			run.ExitCode = ee.ExitCode()
			return run, nil
		}
		if err == nil && !crashed {
			run.Res.End = "os-exit" // os.Exit(0)
			return run, nil
		}
		run.ExitErr = fmt.Sprintf("no result (%v): %s", err, tailStr(text, 12000))
		return run, nil
	}
	if jerr := json.Unmarshal(rb, &run.Res); jerr != nil {
		return nil, jerr
	}
	return run, nil
}

// Reference runs (no schedule words) never park inside library code; scheduled
// runs park at library yields once in lightDiv (task-local decision).
var lightDiv = 4

func lightDivFor(words []uint32) int {
	if len(words) == 0 {
		return 0
	}
	return lightDiv
}

func tailStr(s string, n int) string {
	if len(s) > n {
		return s[len(s)-n:]
	}
	return s
}

// WorkDir creates a private scratch directory for one run.
func WorkDir(idx uint64) (string, error) {
	base := os.Getenv("VERIF_SCRATCH")
	if base == "" {
		base = os.TempDir()
	}
	d := filepath.Join(base, "cli", fmt.Sprintf("w%s-%d-%d", os.Getenv("VERIF_WORKER"), os.Getpid(), idx))
	os.RemoveAll(d)
	if err := os.MkdirAll(filepath.Join(d, "tree"), 0o755); err != nil {
		return "", err
	}
	return d, nil
}

// splitBlocks decides whether out is a concatenation of the given blocks, each
// used exactly once, in some order (back-tracking over the small block set).
func MatchBlocks(out string, blocks []string) bool {
	var nonEmpty []string
	for _, b := range blocks {
		if b != "" {
			nonEmpty = append(nonEmpty, b)
		}
	}
	sort.Strings(nonEmpty)
	used := make([]bool, len(nonEmpty))
	total := 0
	for _, b := range nonEmpty {
		total += len(b)
	}
	if total != len(out) {
		return false
	}
	budget := 200000
	var rec func(pos int) bool
	rec = func(pos int) bool {
		if pos == len(out) {
			return true
		}
		budget--
		if budget < 0 {
			return false
		}
		prev := "\x00"
		for i, b := range nonEmpty {
			if used[i] || b == prev {
				continue
			}
			if strings.HasPrefix(out[pos:], b) {
				used[i] = true
				if rec(pos + len(b)) {
					return true
				}
				used[i] = false
				prev = b
			}
		}
		return false
	}
	return rec(0)
}

package cli

import "testing"

func TestMatchBlocks(t *testing.T) {
	if !MatchBlocks("aabbb", []string{"bbb", "", "aa"}) {
		t.Fatal("permutation not accepted")
	}
	if MatchBlocks("ababb", []string{"bbb", "aa"}) {
		t.Fatal("interleaved blocks accepted")
	}
	if MatchBlocks("aabbbaa", []string{"bbb", "aa"}) {
		t.Fatal("block used twice accepted")
	}
	if !MatchBlocks("xxx", []string{"x", "xx"}) || !MatchBlocks("xxx", []string{"xx", "x"}) {
		t.Fatal("ambiguous prefixes need back-tracking")
	}
	if !MatchBlocks("", []string{"", ""}) {
		t.Fatal("empty")
	}
}

// Package events drives store.CreateInMemory through the Parser seam (S2)
// with scripted event histories, and checks the resulting tree against a
// small stack-machine reference model (C10).
package events

import (
	"fmt"
	"strings"

	"github.com/ChrisTrenkamp/xsel/node"
	"github.com/ChrisTrenkamp/xsel/parser"
	"github.com/ChrisTrenkamp/xsel/store"

	"verif/model"
	"verif/simio"
	"verif/simkit"
)

type config struct {
	MaxEvents  int
	MaxDepth   int
	SurplusEnd bool
	Namespaces bool
	SamePrefix bool
	Deep       bool
	Wide       bool
	Undeclare  bool
	Collide    bool // names repeat (siblings, attributes with one local name in several namespaces)
}

type gen struct {
	t      *simkit.Tape
	cfg    config
	events []simio.Event
	id     int
	surplusAtDepth0 int
}

func (g *gen) nid() int { g.id++; return g.id }

var pfx = []string{"", "p", "q", "xml"}

func (g *gen) surplus() {
	if g.cfg.SurplusEnd && g.t.Bool(1, 5) {
		n := 1 + g.t.Geo(2)
		for i := 0; i < n; i++ {
			g.events = append(g.events, simio.Event{End: true})
			g.surplusAtDepth0++
		}
	}
}

func (g *gen) leaf() {
	id := g.nid()
	switch g.t.Pick(3, 1, 1) {
	case 0:
		g.events = append(g.events, simio.Event{Node: &simio.SText{ID: id, Val: fmt.Sprintf("t%d", id)}})
	case 1:
		g.events = append(g.events, simio.Event{Node: &simio.SComment{ID: id, Val: fmt.Sprintf("c%d", id)}})
	case 2:
		g.events = append(g.events, simio.Event{Node: &simio.SPI{ID: id, Tgt: fmt.Sprintf("pi%d", id), Val: fmt.Sprintf("v%d", id)}})
	}
}

func (g *gen) element(depth int) {
	id := g.nid()
	ename := fmt.Sprintf("e%d", id)
	if g.cfg.Collide {
		// same names again and again: siblings, parent and child, attribute and element
		ename = []string{"e", "item", "a", "lang"}[g.t.Draw(4)]
	}
	g.events = append(g.events, simio.Event{Node: &simio.SElem{ID: id, SpaceV: []string{"", "urn:a"}[g.t.Draw(2)], Name: ename}})
	if g.cfg.Namespaces {
		n := g.t.Pick(3, 3, 2, 1)
		wideNS := g.cfg.Wide && g.t.Bool(1, 5)
		if wideNS {
			n = 7 + g.t.Draw(10) // many declarations on one element
		}
		used := map[string]bool{}
		for i := 0; i < n; i++ {
			p := pfx[g.t.Draw(len(pfx))]
			if wideNS {
				p = []string{"", "a0", "n1", "n2", "n3", "n4", "n5", "n6", "n7", "w", "xa", "xmk", "xmm", "y", "zz", "B", "p", "q"}[g.t.Draw(18)]
			}
			if used[p] && !g.cfg.SamePrefix {
				continue
			}
			used[p] = true
			nid := g.nid()
			uri := fmt.Sprintf("urn:%d", nid)
			if g.cfg.Undeclare && p == "" && g.t.Bool(1, 3) {
				uri = "" // xmlns="": hides the inherited default namespace and is no node itself
			}
			g.events = append(g.events, simio.Event{Node: &simio.SNS{ID: nid, Pfx: p, URI: uri}})
		}
	}
	na := g.t.Pick(4, 2, 1)
	if g.cfg.Wide && g.t.Bool(1, 3) {
		na = 3 + g.t.Draw(14)
	}
	usedAttr := map[string]bool{}
	for i := 0; i < na; i++ {
		aid := g.nid()
		a := &simio.SAttr{ID: aid, Name: fmt.Sprintf("a%d", aid), Val: fmt.Sprintf("v%d", aid)}
		if g.cfg.Collide {
			// one local name in several namespaces (href + xlink:href, lang + xml:lang):
			// distinct expanded names, so a conforming parser may emit them together
			a.Name = []string{"a", "href", "lang", "e"}[g.t.Draw(4)]
			a.SpaceV = []string{"", "urn:a", "urn:b", "http://www.w3.org/XML/1998/namespace"}[g.t.Draw(4)]
			if usedAttr[a.SpaceV+" "+a.Name] {
				continue
			}
			usedAttr[a.SpaceV+" "+a.Name] = true
			if g.t.Bool(1, 3) {
				a.Val = "v" // equal values too
			}
		}
		g.events = append(g.events, simio.Event{Node: a})
	}
	if g.cfg.Deep && depth < g.cfg.MaxDepth && len(g.events) < g.cfg.MaxEvents {
		// a spine: mostly one child, to reach depth
		if g.t.Bool(1, 3) {
			g.leaf()
		}
		g.element(depth + 1)
		if g.t.Bool(1, 3) {
			g.leaf()
		}
	} else if depth < g.cfg.MaxDepth {
		nc := g.t.Geo(5)
		limit := g.cfg.MaxEvents
		if g.cfg.Wide && g.t.Bool(1, 4) {
			nc = 17 + g.t.Draw(120)
			limit = len(g.events) + 3*nc
		}
		for i := 0; i < nc && len(g.events) < limit; i++ {
			if g.t.Bool(1, 2) {
				g.element(depth + 1)
			} else {
				g.leaf()
			}
		}
	}
	g.events = append(g.events, simio.Event{End: true})
}

func generate(t *simkit.Tape) (*gen, config) {
	cfg := config{}
	cfg.MaxEvents = []int{8, 20, 60, 200}[t.Pick(2, 3, 3, 1)]
	cfg.MaxDepth = t.Range(1, 7)
	cfg.SurplusEnd = t.Bool(1, 2)
	cfg.Namespaces = t.Bool(3, 4)
	cfg.SamePrefix = t.Bool(1, 3)
	cfg.Deep = t.Bool(1, 12)
	cfg.Wide = t.Bool(1, 6)
	cfg.Undeclare = t.Bool(1, 3)
	cfg.Collide = t.Bool(1, 3)
	if cfg.Deep {
		cfg.MaxDepth = 40 + t.Draw(160)
		cfg.MaxEvents = 2000
	}
	g := &gen{t: t, cfg: cfg}
	top := 1 + g.t.Geo(3)
	for i := 0; i < top; i++ {
		g.surplus()
		if g.t.Bool(2, 3) {
			g.element(1)
		} else {
			g.leaf()
		}
	}
	g.surplus()
	if cfg.SurplusEnd && t.Bool(1, 3) {
		g.events = append(g.events, simio.Event{End: true}, simio.Event{End: true})
		g.surplusAtDepth0 += 2
	}
	return g, cfg
}

// ref is the reference model: a stack machine folding events into the
// expected abstract tree; also records which node value sits where.
type refNode struct {
	n     *model.Node
	value node.Node
	ns    map[string]node.Node // prefix -> the namespace value in scope
	kids  []*refNode
	attrs []*refNode
}

func fold(events []simio.Event) *refNode {
	root := &refNode{n: &model.Node{Kind: model.KRoot}, ns: map[string]node.Node{}}
	stack := []*refNode{root}
	for _, ev := range events {
		cur := stack[len(stack)-1]
		if ev.End {
			if len(stack) > 1 {
				stack = stack[:len(stack)-1]
			}
			continue
		}
		switch v := ev.Node.(type) {
		case *simio.SElem:
			e := &refNode{n: &model.Node{Kind: model.KElem, Space: v.SpaceV, Local: v.Name, InScope: map[string]string{}}, value: v, ns: map[string]node.Node{}}
			for k, x := range cur.ns {
				e.ns[k] = x
				e.n.InScope[k] = x.(*simio.SNS).URI
			}
			cur.kids = append(cur.kids, e)
			cur.n.Children = append(cur.n.Children, e.n)
			stack = append(stack, e)
		case *simio.SNS:
			cur.ns[v.Pfx] = v
			if cur.n.InScope == nil {
				cur.n.InScope = map[string]string{}
			}
			cur.n.InScope[v.Pfx] = v.URI
		case *simio.SAttr:
			a := &refNode{n: &model.Node{Kind: model.KAttr, Space: v.SpaceV, Local: v.Name, Value: v.Val}, value: v}
			cur.attrs = append(cur.attrs, a)
			cur.n.Attrs = append(cur.n.Attrs, a.n)
		case *simio.SText:
			k := &refNode{n: &model.Node{Kind: model.KText, Value: v.Val}, value: v}
			cur.kids = append(cur.kids, k)
			cur.n.Children = append(cur.n.Children, k.n)
		case *simio.SComment:
			k := &refNode{n: &model.Node{Kind: model.KComment, Value: v.Val}, value: v}
			cur.kids = append(cur.kids, k)
			cur.n.Children = append(cur.n.Children, k.n)
		case *simio.SPI:
			k := &refNode{n: &model.Node{Kind: model.KPI, Target: v.Tgt, Value: v.Val}, value: v}
			cur.kids = append(cur.kids, k)
			cur.n.Children = append(cur.n.Children, k.n)
		}
	}
	undeclare(root)
	return root
}

// undeclare applies the data-model rule for xmlns="": an empty default
// namespace hides the inherited binding (already done by the overriding fold)
// and is not a namespace node itself.
func undeclare(r *refNode) {
	if v, ok := r.ns[""]; ok && v.(*simio.SNS).URI == "" {
		delete(r.n.InScope, "")
	}
	for _, k := range r.kids {
		undeclare(k)
	}
}

func safeCreate(p store.Cursor, f func() (store.Cursor, error)) (c store.Cursor, err error, pan string) {
	defer func() {
		if r := recover(); r != nil {
			pan = fmt.Sprint(r)
		}
	}()
	c, err = f()
	return
}

func renderEvents(ev []simio.Event) string {
	var b strings.Builder
	for i, e := range ev {
		if i > 0 {
			b.WriteString(" ")
		}
		if i > 120 {
			fmt.Fprintf(&b, "… (%d events)", len(ev))
			break
		}
		b.WriteString(e.String())
	}
	return b.String()
}

// identity checks that every cursor holds the very node value the script
// emitted at that place.
func identity(o *simkit.Outcome, hist string, c store.Cursor, r *refNode, path string) {
	if r.value != nil && c.Node() != r.value {
		o.Violate("C10", "identity", "node-value-not-the-emitted-object", "%s holds a different node value than the one the parser emitted\nhistory: %s", path, hist)
		return
	}
	if r.n.Kind == model.KElem {
		for _, nc := range c.Namespaces() {
			ns, ok := nc.Node().(node.Namespace)
			if !ok {
				continue
			}
			if want, ok := r.ns[ns.Prefix()]; ok && want != nc.Node() {
				o.Violate("C10", "identity", "namespace-value-not-the-binding-in-scope", "%s: namespace node for prefix %q is not the binding in scope\nhistory: %s", path, ns.Prefix(), hist)
				return
			}
		}
	}
	as := c.Attributes()
	for i := range r.attrs {
		if i < len(as) {
			identity(o, hist, as[i], r.attrs[i], fmt.Sprintf("%s/@[%d]", path, i))
		}
	}
	ks := c.Children()
	for i := range r.kids {
		if i < len(ks) {
			identity(o, hist, ks[i], r.kids[i], fmt.Sprintf("%s/%d", path, i))
		}
	}
}

// Run is the C10 history engine.
// nestParser builds another document with the store from inside Pull.
type nestParser struct {
	inner  parser.Parser
	events []simio.Event
	at     map[int]bool
	pulls  int
	built  []nestedBuild
}

type nestedBuild struct {
	c   store.Cursor
	err error
	pan string
}

func (n *nestParser) Pull() (node.Node, bool, error) {
	n.pulls++
	if n.at[n.pulls] {
		c, err, pan := safeCreate(nil, func() (store.Cursor, error) {
			m, e := store.CreateInMemory(&simio.ScriptParser{Events: n.events})
			if m == nil {
				return nil, e
			}
			return m, e
		})
		n.built = append(n.built, nestedBuild{c, err, pan})
	}
	return n.inner.Pull()
}

func Run(t *simkit.Tape, o *simkit.Outcome, full bool) {
	const P = "C10"
	g, cfg := generate(t)
	hist := renderEvents(g.events)
	if full {
		o.Scenario = map[string]any{"config": cfg, "history": hist, "events": len(g.events)}
	}
	o.Steps += len(g.events)
	var sp parser.Parser = &simio.ScriptParser{Events: g.events}
	// A conforming parser may itself use the store while it is being pulled (a
	// parser that resolves an inclusion by building the included document): at
	// 1-3 drawn pull counts a complete second history is built inside Pull.
	var nested *nestParser
	if t.Bool(1, 4) && len(g.events) > 2 {
		gi, _ := generate(t)
		nested = &nestParser{inner: sp, events: gi.events, at: map[int]bool{}}
		for k := 1 + t.Draw(3); k > 0; k-- {
			nested.at[1+t.Draw(len(g.events))] = true
		}
		sp = nested
		o.Fault("build-nested-inside-pull")
	}
	c, err, pan := safeCreate(nil, func() (store.Cursor, error) {
		m, e := store.CreateInMemory(sp)
		if m == nil {
			return nil, e
		}
		return m, e
	})
	o.Evals++
	if pan != "" {
		o.Violate(P, "panic", "panic:CreateInMemory", "CreateInMemory panicked: %s\nhistory: %s", pan, hist)
		return
	}
	if err != nil || c == nil {
		o.Violate(P, "conforming-history-rejected", "conforming-history-rejected", "CreateInMemory failed on a conforming history: %v\nhistory: %s", err, hist)
		return
	}
	if g.surplusAtDepth0 > 0 {
		o.FaultN("surplus-end-event-at-depth-0", g.surplusAtDepth0)
	}
	if cfg.Deep {
		o.Probe("deep-history")
	}
	if cfg.SamePrefix {
		o.Probe("same-prefix-twice-config")
	}
	ref := fold(g.events)
	if t.Bool(1, 3) {
		model.TouchBottomUp(c)
		o.Probe("first-observation-bottom-up")
	}
	snap := model.Snap(c)
	for _, p := range snap.Problems {
		o.Violate(P, "structure", "structure:"+p.Sig, "%s\nhistory: %s", p.Detail, hist)
	}
	want := ref.n.Render(true, true)
	got := snap.Tree.Render(true, true)
	if want != got {
		o.Violate(P, "shape", "shape", "tree differs from the reference model: %s\nhistory: %s", model.FirstDiff(want, got), hist)
	} else {
		identity(o, hist, c, ref, "")
	}
	if nested != nil {
		for _, in := range nested.built {
			o.Evals++
			if in.pan != "" || in.err != nil || in.c == nil {
				o.Violate(P, "conforming-history-rejected", "nested-build-failed", "a CreateInMemory running inside another build's Pull failed: %v %s\ninner history: %s", in.err, in.pan, renderEvents(nested.events))
				continue
			}
			refIn := fold(nested.events)
			sn := model.Snap(in.c)
			for _, p := range sn.Problems {
				o.Violate(P, "structure", "structure:nested-build:"+p.Sig, "tree built inside another build's Pull: %s\ninner history: %s\nouter history: %s", p.Detail, renderEvents(nested.events), hist)
			}
			if w, gg := refIn.n.Render(true, true), sn.Tree.Render(true, true); w != gg {
				o.Violate(P, "shape", "shape:nested-build", "tree built inside another build's Pull differs from the reference model: %s\ninner history: %s\nouter history: %s", model.FirstDiff(w, gg), renderEvents(nested.events), hist)
			}
		}
	}
	// a later, unrelated build must not disturb this tree (allocator / pool state)
	if t.Bool(1, 3) && len(o.Violations) == 0 {
		g2, _ := generate(t)
		c2, err2, pan2 := safeCreate(nil, func() (store.Cursor, error) {
			m, e := store.CreateInMemory(&simio.ScriptParser{Events: g2.events})
			if m == nil {
				return nil, e
			}
			return m, e
		})
		o.Evals++
		o.Probe("second-build-then-recheck")
		if pan2 != "" || err2 != nil || c2 == nil {
			o.Violate(P, "conforming-history-rejected", "second-build-failed", "a second CreateInMemory failed: %v %s", err2, pan2)
		} else {
			again := model.Snap(c)
			for _, p := range again.Problems {
				o.Violate(P, "earlier-tree-disturbed", "earlier-tree-disturbed", "after building another tree, the first tree is damaged: %s\nhistory A: %s\nhistory B: %s", p.Detail, hist, renderEvents(g2.events))
			}
			if g := again.Tree.Render(true, true); g != got {
				o.Violate(P, "earlier-tree-disturbed", "earlier-tree-disturbed", "after building another tree, the first tree changed: %s\nhistory A: %s\nhistory B: %s", model.FirstDiff(got, g), hist, renderEvents(g2.events))
			}
			ref2 := fold(g2.events)
			if w2, g2r := ref2.n.Render(true, true), model.Snap(c2).Tree.Render(true, true); w2 != g2r {
				o.Violate(P, "shape", "shape:second-build", "second tree differs from the reference model: %s\nhistory: %s", model.FirstDiff(w2, g2r), renderEvents(g2.events))
			}
		}
	}
	// overridden / inherited namespace probes
	var probe func(r *refNode, parent *refNode)
	probe = func(r *refNode, parent *refNode) {
		if r.n.Kind == model.KElem && parent != nil {
			for k, v := range r.ns {
				if pv, ok := parent.ns[k]; ok {
					if pv == v {
						o.Probe("inherited-namespace")
					} else {
						o.Probe("overridden-namespace")
					}
				}
			}
		}
		for _, k := range r.kids {
			probe(k, r)
		}
	}
	probe(ref, nil)
	o.NonTrivial = len(g.events) >= 4
	o.Fingerprint = simkit.Hash64(hist)
}

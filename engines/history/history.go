// Package history simulates a caller's call history (seams S3 and S4):
// shared cursor trees, shared compiled expressions, caller-owned binding maps,
// held result slices (and sub-slices with spare capacity) passed back in as
// variables, and user callbacks that fail, panic or re-enter Exec (C13).
package history

import (
	"fmt"
	"strings"

	"github.com/ChrisTrenkamp/xsel"

	"verif/engines/world"
	"verif/model"
	"verif/simkit"
)

const P = "C13"

type held struct {
	name  string
	slice xsel.NodeSet
	orig  []xsel.Cursor // element identities at the time the caller obtained it
	how   string
}

type poolEntry struct {
	world.PoolExpr
	g      *xsel.Grammar
	err    error
	dump   string
	source string
	uses   int
}

type opRecord struct {
	ns   map[string]string // this operation's prefix bindings (nil: the default ones)
	nofn map[string]bool   // user functions NOT bound in this operation
	vals map[string]world.Value // this operation's values of the scalar variables
	desc string
	req  world.ExecReq
	vars map[string]int // node-set variable -> held index
	own  bool
	key  string
}

type session struct {
	t     *simkit.Tape
	o     *simkit.Outcome
	specs []world.DocSpec
	w     *world.World
	pool  []*poolEntry
	held  []*held
	env   *model.ExprEnv
	bind  *world.Bindings
	ownNS map[string]string
	ownV  map[xsel.XmlName]xsel.Result
	ops   []string
	recs  []opRecord
	fheld map[string]int // "held" callbacks: function name -> held index
}

func (s *session) log(format string, args ...any) {
	s.ops = append(s.ops, fmt.Sprintf(format, args...))
}

func (s *session) scenario() map[string]any {
	docs := []string{}
	for _, d := range s.specs {
		docs = append(docs, d.Kind+": "+string(d.Bytes))
	}
	fs := []string{}
	for _, f := range s.bind.Funcs {
		fs = append(fs, f.String())
	}
	return map[string]any{"docs": docs, "ops": s.ops, "functions": fs, "namespaces": s.bind.NS}
}

func (s *session) violate(class, sig, format string, args ...any) {
	s.o.Violate(P, class, sig, "%s\nhistory:\n  %s", fmt.Sprintf(format, args...), strings.Join(s.ops, "\n  "))
}

// invariants: I1 — nothing observable changed.
func (s *session) checkI1(after string) bool {
	ok := true
	if d := s.w.Changed(); d != "" {
		s.violate("I1-document-changed", "document-changed", "after %s: %s", after, d)
		ok = false
	}
	for _, h := range s.held {
		if len(h.slice) != len(h.orig) {
			continue
		}
		for i := range h.orig {
			if h.slice[i] != h.orig[i] {
				was, _ := s.w.RefOf(h.orig[i])
				now, _ := s.w.RefOf(h.slice[i])
				s.violate("I1-held-slice-mutated", "held-slice-mutated", "after %s: caller-held node-set %s (%s) changed at index %d: was %s, now %s", after, h.name, h.how, i, s.w.PathOf(was), s.w.PathOf(now))
				ok = false
				// accept the new contents so that one defect is reported once
				copy(h.orig, h.slice)
				break
			}
		}
	}
	for _, p := range s.pool {
		if p.g == nil {
			continue
		}
		if d := world.DumpGrammar(p.g); d != p.dump {
			s.violate("I1-compiled-expression-changed", "compiled-expression-changed", "after %s: the public face of compiled expression %q changed: %s", after, p.Str, model.FirstDiff(p.dump, d))
			p.dump = d
			ok = false
		}
	}
	return ok
}

func (s *session) hold(ns xsel.NodeSet, how string) int {
	h := &held{name: fmt.Sprintf("h%d", len(s.held)), slice: ns, how: how}
	h.orig = append([]xsel.Cursor(nil), ns...)
	s.held = append(s.held, h)
	if cap(ns) > len(ns) {
		s.o.Probe("held-slice-with-spare-capacity")
	}
	if len(ns) >= 2 && ns[0].Pos() > ns[len(ns)-1].Pos() {
		s.o.Probe("held-slice-in-reverse-order")
	}
	return len(s.held) - 1
}

func (s *session) build(str string, typ model.XType, source string) int {
	for i, p := range s.pool {
		if p.Str == str {
			return i
		}
	}
	e := &poolEntry{PoolExpr: world.PoolExpr{Str: str, Type: typ}, source: source}
	g, err, pan := safeBuild(str)
	s.o.Evals++
	if pan != "" {
		s.violate("panic", "panic:BuildExpr", "BuildExpr(%q) panicked: %s", str, pan)
		err = fmt.Errorf("panic")
	}
	if err != nil {
		e.err = err
		s.o.Probe("expression-rejected-by-BuildExpr")
	} else {
		e.g = &g
		e.dump = world.DumpGrammar(e.g)
		s.o.Probe("expression-built")
	}
	s.pool = append(s.pool, e)
	s.log("e%d = BuildExpr(%q)%s", len(s.pool)-1, str, map[bool]string{true: " -> error", false: ""}[err != nil])
	return len(s.pool) - 1
}

func safeBuild(str string) (g xsel.Grammar, err error, pan string) {
	defer func() {
		if r := recover(); r != nil {
			pan = fmt.Sprint(r)
		}
	}()
	g, err = xsel.BuildExpr(str)
	return
}

// poolSpecs exposes the pool to re-entrant callbacks.
func (s *session) poolSpecs() []world.PoolExpr {
	out := make([]world.PoolExpr, len(s.pool))
	for i, p := range s.pool {
		out[i] = p.PoolExpr
	}
	return out
}

// exec performs one query in the shared world and compares it with the
// isolated world (I2).
func (s *session) exec(rec opRecord, repeatOf int) {
	b := *s.bind
	b.Vars = map[string]world.Value{}
	for k, v := range s.bind.Vars {
		b.Vars[k] = v
	}
	for name, hi := range rec.vars {
		v, err := s.w.ToValue(s.held[hi].slice)
		if err != nil {
			return
		}
		b.Vars[name] = v
	}
	for name, v := range rec.vals {
		b.Vars[name] = v
	}
	if rec.ns != nil {
		b.NS = rec.ns
	}
	if len(rec.nofn) > 0 {
		var keep []world.FuncSpec
		for _, f := range b.Funcs {
			if !rec.nofn[f.Name] {
				keep = append(keep, f)
			}
		}
		b.Funcs = keep
	}
	if rec.own {
		for k := range s.ownNS {
			delete(s.ownNS, k)
		}
		for k, v := range b.NS {
			s.ownNS[k] = v
		}
	}
	rec.req.Bindings = &b
	if rec.req.Pool == nil {
		// a verbatim repeat keeps the callback behaviour of the first run: the
		// pool the re-entrant callbacks may refer to is part of the operation
		rec.req.Pool = s.poolSpecs()
	}

	// expected result: isolated world, computed before the shared world is touched
	iso, ierr := world.NewWorld(s.specs)
	if ierr != nil {
		s.o.HarnessDoubt("isolated world cannot be built: %v", ierr)
		return
	}
	want := world.Eval(iso, rec.req, nil)
	s.o.Evals++

	hooks := &world.Hooks{
		Grammar: func(expr string) (*xsel.Grammar, error) {
			for _, p := range s.pool {
				if p.Str == expr {
					p.uses++
					if p.uses > 1 {
						s.o.Probe("compiled-expression-reused")
					}
					return p.g, p.err
				}
			}
			return nil, fmt.Errorf("not in pool")
		},
		Var: func(name string) (xsel.Result, bool) {
			if hi, ok := rec.vars[name]; ok {
				return s.held[hi].slice, true
			}
			return nil, false
		},
		FuncValue: func(name string) (xsel.Result, bool) {
			if hi, ok := s.fheld[name]; ok {
				s.o.Probe("callback-returned-caller-held-slice")
				return s.held[hi].slice, true
			}
			return nil, false
		},
		Reentered: func(same bool) {
			s.o.Probe("callback-reentered-Exec")
			if same {
				s.o.Probe("callback-reentered-same-compiled-expression")
			}
		},
		CallbackFault: func(kind string) { s.o.Fault(kind) },
	}
	if rec.own {
		hooks.OwnedNS = s.ownNS
		hooks.OwnedVars = s.ownV
		s.o.Probe("bindings-via-caller-owned-maps")
	}
	for _, hi := range rec.vars {
		h := s.held[hi]
		if cap(h.slice) > len(h.slice) {
			s.o.Probe("variable-is-held-slice-with-spare-capacity")
		}
	}
	got := world.Eval(s.w, rec.req, hooks)
	s.o.Evals++
	s.o.Steps++
	s.log("%s -> %s", rec.desc, got.Show(s.w))
	s.o.Observe(rec.desc, got.Key(s.w))
	if got.Panic && strings.HasPrefix(got.Text, "PANIC ESCAPED") {
		s.violate("panic", "panic:Exec", "%s: %s", rec.desc, got.Text)
	}
	if got.Mutated != "" {
		s.violate("I1-binding-maps-changed", "binding-maps-changed", "after %s: %s", rec.desc, got.Mutated)
	}
	if s.t.Bool(1, 3) {
		// The isolated world shares nothing with the history except the process:
		// if the same isolated evaluation differs before and after the call,
		// the call changed package-level state.
		iso2, _ := world.NewWorld(s.specs)
		again := world.Eval(iso2, rec.req, nil)
		s.o.Evals++
		s.o.Probe("isolated-evaluation-repeated-after-the-call")
		if again.Key(iso2) != want.Key(iso) {
			s.violate("I2-history-dependence", "hidden-global-state", "%s: the same query in a fresh isolated world returned %s before this call and %s after it: the call changed process-wide state", rec.desc, want.Show(iso), again.Show(iso2))
		}
	}
	if got.Key(s.w) != want.Key(iso) {
		s.violate("I2-history-dependence", "history-dependence", "%s returned %s in this history but %s in a fresh isolated world (same documents, expression string, bindings, context node)", rec.desc, got.Show(s.w), want.Show(iso))
	}
	if repeatOf >= 0 && s.recs[repeatOf].key != got.Key(s.w) {
		s.violate("I3-repeat-differs", "repeat-differs", "%s repeated verbatim returned %s; the first time it returned a different result", rec.desc, got.Show(s.w))
	}
	rec.key = got.Key(s.w)
	s.recs = append(s.recs, rec)
	if !got.Err && got.Val.Type == "nodeset" {
		// the caller keeps what it was given
		res := s.w.FromValue(got.Val).(xsel.NodeSet)
		_ = res
	}
	s.checkI1(rec.desc)
}

// execKeep is exec, but the caller also keeps the returned slice itself.
func (s *session) execKeep(rec opRecord) {
	// To hold the very slice Exec returned we run the query directly.
	p := s.pool[s.findPool(rec.req.Expr)]
	if p.g == nil {
		return
	}
	opts := []xsel.ContextApply{}
	for k, v := range s.bind.NS {
		opts = append(opts, xsel.WithNS(k, v))
	}
	for name, v := range s.bind.Vars {
		opts = append(opts, xsel.WithVariable(name, s.w.FromValue(v)))
	}
	for name, hi := range rec.vars {
		opts = append(opts, xsel.WithVariable(name, s.held[hi].slice))
	}
	ns, err, pan := safeNodeset(s.w.Cursor(rec.req.Ctx), p.g, opts...)
	s.o.Evals++
	if pan != "" {
		s.violate("panic", "panic:ExecAsNodeset", "%s panicked: %s", rec.desc, pan)
		return
	}
	if err != nil {
		s.log("%s -> error", rec.desc)
		return
	}
	for _, c := range ns {
		if _, ok := s.w.RefOf(c); !ok {
			s.violate("foreign-node", "foreign-node", "%s returned a cursor that is not a node of the queried documents", rec.desc)
			return
		}
	}
	hi := s.hold(ns, rec.desc)
	v, _ := s.w.ToValue(ns)
	s.log("%s = %s -> %s (len %d cap %d)", s.held[hi].name, rec.desc, world.Norm{Val: v}.Show(s.w), len(ns), cap(ns))
	s.checkI1(rec.desc)
}

func safeNodeset(c xsel.Cursor, g *xsel.Grammar, opts ...xsel.ContextApply) (ns xsel.NodeSet, err error, pan string) {
	defer func() {
		if r := recover(); r != nil {
			pan = fmt.Sprint(r)
		}
	}()
	ns, err = xsel.ExecAsNodeset(c, g, opts...)
	return
}

func (s *session) findPool(str string) int {
	for i, p := range s.pool {
		if p.Str == str {
			return i
		}
	}
	return 0
}

func (s *session) randomNode() world.NodeRef {
	// context node: root, or any node of any held result, or any node
	if len(s.held) > 0 && s.t.Bool(1, 2) {
		h := s.held[s.t.Draw(len(s.held))]
		if len(h.slice) > 0 {
			if r, ok := s.w.RefOf(h.slice[s.t.Draw(len(h.slice))]); ok {
				return r
			}
		}
	}
	d := s.t.Draw(len(s.w.Docs))
	if s.t.Bool(1, 2) {
		return world.NodeRef{Doc: d, Idx: 0}
	}
	return world.NodeRef{Doc: d, Idx: s.t.Draw(len(s.w.Docs[d].Snap.Cursors))}
}

func (s *session) drawVars() map[string]int {
	vars := map[string]int{}
	if len(s.held) == 0 {
		return vars
	}
	for _, name := range s.env.NSVars {
		vars[name] = s.t.Draw(len(s.held))
	}
	return vars
}

func varDesc(s *session, vars map[string]int) string {
	parts := []string{}
	for _, name := range s.env.NSVars {
		if hi, ok := vars[name]; ok {
			parts = append(parts, fmt.Sprintf("$%s=%s", name, s.held[hi].name))
		}
	}
	return strings.Join(parts, ",")
}

// Run is the C13 engine.
func Run(t *simkit.Tape, o *simkit.Outcome, full bool) {
	s := &session{t: t, o: o}
	nd := 1 + t.Pick(5, 2, 1)
	for i := 0; i < nd; i++ {
		s.specs = append(s.specs, world.GenDocSpec(t))
	}
	w, err := world.NewWorld(s.specs)
	if err != nil {
		o.HarnessDoubt("generated document does not parse: %v", err)
		return
	}
	s.w = w
	if d := w.Changed(); d != "" {
		// the C09/C10 engines own structural defects of fresh trees
		o.Probe("fresh-tree-has-structural-problem")
		return
	}
	elems, attrs, pis := w.Names()
	s.env = &model.ExprEnv{ElemNames: elems, AttrNames: attrs, PITargets: pis, Prefixes: []string{"p", "q"},
		NumVars: []string{"n"}, StrVars: []string{"s"}, BoolVars: []string{"b"}, NSVars: []string{"v", "w"}}
	s.bind = &world.Bindings{NS: map[string]string{"p": "urn:a", "q": "urn:b"}, Vars: map[string]world.Value{
		"n": {Type: "number", Num: float64(t.Draw(5))}, "s": {Type: "string", Str: []string{"a", "", "en", "x y"}[t.Draw(4)]}, "b": {Type: "bool", Bool: t.Bool(1, 2)}}}
	s.ownNS = map[string]string{"p": "urn:a", "q": "urn:b"}
	s.ownV = map[xsel.XmlName]xsel.Result{}

	// seed the pool and the held results with shapes that produce reverse order
	// and spare capacity
	seedExprs := []string{"//*[$n]", "(//*)[$n]", "/*/*[$n]", "//*[$b]", "//*[$s]", "//*[*[$n]]", "//*/@*", "/*/@*", "/*/*/@*", "//*[1]/@*", "/*/*[position() < 3]/@*", "/*/*[position() != 2]/@*", "/*/*[last()]/@* | /*/*[1]/@*", "//.", "//self::node()", "/*//.", "//*", "//*/ancestor::*", "//node()/preceding-sibling::node()", "//@*", "/*/*", "//text()", "//*[last()]/ancestor-or-self::*", "//*/preceding::*", "//*/namespace::*", "/"}
	nSeed := 1 + t.Draw(3)
	for i := 0; i < nSeed; i++ {
		str := seedExprs[t.Draw(len(seedExprs))]
		if s.specs[0].Family == "capacity" && t.Bool(2, 3) {
			str = world.CapacityExprs[t.Draw(len(world.CapacityExprs))]
		}
		pi := s.build(str, model.TNodeSet, "seed")
		s.execKeep(opRecord{desc: fmt.Sprintf("ExecAsNodeset(%s, e%d)", s.w.PathOf(world.NodeRef{}), pi), req: world.ExecReq{Expr: str, Ctx: world.NodeRef{}}})
	}

	// user functions
	nf := t.Pick(2, 3, 2)
	kinds := []string{"reenter", "held", "fail", "panic", "const", "echo"}
	for i := 0; i < nf; i++ {
		fname := []string{"f", "g", "h"}[i]
		if t.Bool(1, 4) {
			fname = []string{"string-length", "count", "not", "name", "concat"}[t.Draw(5)] // shadows a builtin
			for _, o := range s.bind.Funcs {
				if o.Name == fname {
					fname = []string{"f", "g", "h"}[i]
				}
			}
		}
		f := world.FuncSpec{Name: fname, Kind: kinds[t.Pick(4, 3, 2, 2, 1, 1)], At: t.Draw(3), Arity: t.Draw(2)}
		f.Const = world.Value{Type: "number", Num: 1}
		f.Ret = model.TNum
		switch f.Kind {
		case "held":
			if len(s.held) > 0 {
				hi := t.Draw(len(s.held))
				v, _ := s.w.ToValue(s.held[hi].slice)
				if s.fheld == nil {
					s.fheld = map[string]int{}
				}
				s.fheld[f.Name] = hi
				f.Const = v
				f.Ret = model.TNodeSet
			} else {
				f.Kind = "const"
			}
		case "reenter":
			f.Expr = t.Draw(len(s.pool) + 3) // may refer to expressions built later
			f.Ret = model.TNodeSet
			f.Const = world.Value{Type: "nodeset"}
		case "echo":
			f.Arity = 1
			f.Ret = model.TNodeSet
		}
		s.bind.Funcs = append(s.bind.Funcs, f)
		s.env.Funcs = append(s.env.Funcs, model.FuncSig{Name: f.Name, Arity: f.Arity, Ret: f.Ret})
		// make sure the callback is actually reached by some pool expressions
		call := f.Name + "(" + map[int]string{0: "", 1: "."}[f.Arity] + ")"
		var tmpl []string
		if f.Ret == model.TNodeSet {
			tmpl = []string{call, call + " | //*", "//*[" + call + "]", "count(" + call + ")", call + "/..", "//*[count(" + call + ") > position()]", "$v | " + call}
		} else {
			tmpl = []string{call, "//*[" + call + " = 1]", call + " + count(//*)", "//*[position() = " + call + "]", "string(" + call + ")"}
		}
		for k := 0; k < 1+t.Draw(2); k++ {
			str := tmpl[t.Draw(len(tmpl))]
			typ := model.TNodeSet
			if !strings.HasPrefix(str, "//") && !strings.HasPrefix(str, "$v") && !(f.Ret == model.TNodeSet && (str == call || strings.HasPrefix(str, call+" |") || strings.HasSuffix(str, "/.."))) {
				typ = model.TNum
			}
			s.build(str, typ, "callback-seed")
		}
	}

	nops := 3 + t.Draw(22)
	for i := 0; i < nops && len(o.Violations) == 0 && o.Harness == ""; i++ {
		if i > 2 && t.Bool(1, 500) {
			s.burst()
			continue
		}
		if t.Bool(1, 20) {
			s.battery()
			continue
		}
		switch t.Pick(5, 8, 4, 3, 3, 3, 1, 2) {
		case 0: // build a new expression
			str, typ := model.GenExprAny(t, s.env)
			pi := s.build(str, typ, "generated")
			if t.Bool(1, 4) && s.pool[pi].g != nil {
				s.checkI4(pi)
			}
		case 1: // query (result normalised, compared with the isolated world)
			if len(s.pool) == 0 {
				continue
			}
			pi := t.Draw(len(s.pool))
			ctx := s.randomNode()
			vars := s.drawVars()
			own := t.Bool(1, 3)
			// the same compiled expression under different prefix bindings
			var ns map[string]string
			nsDesc := ""
			switch t.Pick(5, 1, 1, 1, 1, 1) {
			case 5:
				// two prefixes for one namespace (legal; whatever the library derives
				// from the bindings must not depend on map iteration order)
				ns, nsDesc = map[string]string{"p": "urn:a", "q": "urn:a", "xs": "urn:a"}, ", p = q = xs = urn:a"
			case 1:
				ns, nsDesc = map[string]string{"p": "urn:b", "q": "urn:a"}, ", p<->q swapped"
			case 2:
				ns, nsDesc = map[string]string{"p": "urn:c:d", "q": "urn:b"}, ", p=urn:c:d"
			case 3:
				ns, nsDesc = map[string]string{"p": "urn:a"}, ", q unbound"
			case 4:
				ns, nsDesc = map[string]string{"p": "http://x.example/y?z=1&w=2", "q": "urn:a", "xs": "urn:b"}, ", p=http://x.example/…"
			}
			if ns != nil {
				s.o.Probe("query-with-rebound-prefixes")
			}
			if len(ns) == 3 && t.Bool(1, 2) {
				// something whose answer could be spelled with either prefix
				pi = s.build([]string{"name(//*[namespace-uri() = 'urn:a'])", "name(//@*[namespace-uri() = 'urn:a'])", "name((//p:* | //@p:*)[1])", "concat(name(//q:*), '|', local-name(//q:*))"}[t.Draw(4)], model.TStr, "alias-seed")
			}
			// the same compiled expression under other values (and types) of the scalar variables
			var vals map[string]world.Value
			if t.Bool(1, 3) {
				vals = map[string]world.Value{}
				switch t.Draw(4) {
				case 0:
					vals["n"] = world.Value{Type: "number", Num: float64(1 + t.Draw(4))}
				case 1:
					vals["n"] = world.Value{Type: "string", Str: "yes"}
					vals["s"] = world.Value{Type: "number", Num: 2}
				case 2:
					vals["n"] = world.Value{Type: "bool", Bool: t.Bool(1, 2)}
					vals["b"] = world.Value{Type: "number", Num: float64(t.Draw(3))}
				case 3:
					vals["s"] = world.Value{Type: "string", Str: []string{"b", "de", "", "item"}[t.Draw(4)]}
					vals["b"] = world.Value{Type: "bool", Bool: t.Bool(1, 2)}
				}
				nsDesc += fmt.Sprintf(", scalars rebound %v", vals)
				s.o.Probe("query-with-rebound-scalar-variables")
			}
			var nofn map[string]bool
			if len(s.bind.Funcs) > 0 && t.Bool(1, 3) {
				nofn = map[string]bool{}
				for _, f := range s.bind.Funcs {
					if t.Bool(1, 2) {
						nofn[f.Name] = true
						nsDesc += ", " + f.Name + "() unbound"
					}
				}
				s.o.Probe("query-with-functions-unbound")
			}
			desc := fmt.Sprintf("Exec(%s, e%d%s%s%s)", s.w.PathOf(ctx), pi, map[bool]string{true: ", caller-owned maps", false: ""}[own], nsDesc, prefixIf(", ", varDesc(s, vars)))
			s.exec(opRecord{desc: desc, req: world.ExecReq{Expr: s.pool[pi].Str, Ctx: ctx}, vars: vars, own: own, ns: ns, nofn: nofn, vals: vals}, -1)
		case 2: // query whose result slice the caller keeps
			var cands []int
			for i, p := range s.pool {
				if p.Type == model.TNodeSet && p.g != nil {
					cands = append(cands, i)
				}
			}
			if len(cands) == 0 {
				continue
			}
			pi := cands[t.Draw(len(cands))]
			ctx := s.randomNode()
			vars := s.drawVars()
			desc := fmt.Sprintf("ExecAsNodeset(%s, e%d%s)", s.w.PathOf(ctx), pi, prefixIf(", ", varDesc(s, vars)))
			s.execKeep(opRecord{desc: desc, req: world.ExecReq{Expr: s.pool[pi].Str, Ctx: ctx}, vars: vars})
		case 3: // derive / alias / copy a held slice
			if len(s.held) == 0 {
				continue
			}
			src := s.held[t.Draw(len(s.held))]
			n := len(src.slice)
			if n == 0 {
				continue
			}
			switch t.Draw(4) {
			case 0:
				j := t.Draw(n + 1)
				hi := s.hold(src.slice[:j], fmt.Sprintf("%s[:%d]", src.name, j))
				s.log("%s = %s[:%d] (len %d cap %d)", s.held[hi].name, src.name, j, j, cap(src.slice[:j]))
			case 1:
				i := t.Draw(n)
				j := i + t.Draw(n-i+1)
				hi := s.hold(src.slice[i:j], fmt.Sprintf("%s[%d:%d]", src.name, i, j))
				s.log("%s = %s[%d:%d] (len %d cap %d)", s.held[hi].name, src.name, i, j, j-i, cap(src.slice[i:j]))
			case 2:
				j := t.Draw(n + 1)
				hi := s.hold(src.slice[:j:j], fmt.Sprintf("%s[:%d:%d]", src.name, j, j))
				s.log("%s = %s[:%d:%d]", s.held[hi].name, src.name, j, j)
			case 3:
				cp := append(xsel.NodeSet(nil), src.slice...)
				hi := s.hold(cp, "copy of "+src.name)
				s.log("%s = copy(%s)", s.held[hi].name, src.name)
			}
		case 4: // repeat an earlier query verbatim
			if len(s.recs) == 0 {
				continue
			}
			ri := t.Draw(len(s.recs))
			r := s.recs[ri]
			r.desc = "repeat: " + strings.TrimPrefix(r.desc, "repeat: ")
			s.o.Probe("repeated-operation")
			s.exec(r, ri)
		case 5: // Unmarshal
			s.unmarshal()
		case 6: // GetCursorString
			ctx := s.randomNode()
			iso, _ := world.NewWorld(s.specs)
			a := safeString(s.w.Cursor(ctx))
			b := safeString(iso.Cursor(ctx))
			s.log("GetCursorString(%s)", s.w.PathOf(ctx))
			s.o.Observe("GetCursorString", a)
			if a != b {
				s.violate("I2-history-dependence", "history-dependence:GetCursorString", "GetCursorString(%s) = %q here but %q in a fresh world", s.w.PathOf(ctx), a, b)
			}
			s.checkI1("GetCursorString")
		case 7: // rebuild a pool string: BuildExpr determinism
			if len(s.pool) == 0 {
				continue
			}
			pi := t.Draw(len(s.pool))
			if s.pool[pi].g != nil {
				s.checkI4(pi)
			}
		}
	}
	if full {
		o.Scenario = s.scenario()
	}
	o.NonTrivial = len(s.recs) >= 3 || len(s.held) >= 3
	o.Fingerprint = simkit.Hash64(strings.Join(s.ops, "\n"), fmt.Sprint(len(s.specs)), string(s.specs[0].Bytes))
}

// burst: a long stretch of failing queries in the middle of a history (a
// caller whose user function keeps failing or panicking, a typo repeated in a
// loop). Failing queries must not wear anything out: a query that succeeded
// before the burst is repeated verbatim right after it.
func (s *session) burst() {
	// every shape evaluates its failing part whatever the document looks like
	shapes := []string{"boom()", "(/)[boom()]", "count((/)[boom() = 1]) + 1", "string((/)[count((/)[boom()]) > 0])", "$unbound", "nosuchfunction(1)", "(/)[$unbound = 1]", "boom() | //*", "concat('a', string(count(//*) + boom()))"}
	expr := shapes[s.t.Draw(len(shapes))]
	kind := []string{"panic", "fail", "panic"}[s.t.Draw(3)]
	n := []int{20, 200, 1500, 3000}[s.t.Pick(3, 3, 2, 1)]
	g, err := xsel.BuildExpr(expr)
	if err != nil {
		s.o.HarnessDoubt("burst expression %q does not build: %v", expr, err)
		return
	}
	b := &world.Bindings{NS: map[string]string{}, Vars: map[string]world.Value{}, Funcs: []world.FuncSpec{{Name: "boom", Kind: kind, At: -1, Const: world.Value{Type: "number", Num: 1}}}}
	hooks := &world.Hooks{Grammar: func(string) (*xsel.Grammar, error) { return &g, nil }}
	ctx := s.randomNode()
	failed := 0
	for i := 0; i < n; i++ {
		r := world.Eval(s.w, world.ExecReq{Expr: expr, Ctx: ctx, Bindings: b}, hooks)
		s.o.Evals++
		if r.Err {
			failed++
		}
		if r.Panic && strings.HasPrefix(r.Text, "PANIC ESCAPED") {
			s.violate("panic", "panic:Exec", "Exec(%q) with a %sing callback: %s", expr, kind, r.Text)
			return
		}
	}
	s.o.Fault("burst-of-failing-queries")
	s.o.FaultN("failing-query-in-burst", failed)
	s.log("burst: %d x Exec(%s, %q) with boom() = %s -> %d failed", n, s.w.PathOf(ctx), expr, kind, failed)
	s.o.Observe("burst", expr, fmt.Sprint(failed))
	if failed != n {
		s.violate("I3-repeat-differs", "failing-query-stops-failing", "%d executions of the failing query %q: %d failed, %d did not", n, expr, failed, n-failed)
	}
	s.checkI1("burst")
	// something that worked before must still work the same way
	for k := 0; k < 3 && len(s.recs) > 0; k++ {
		ri := s.t.Draw(len(s.recs))
		r := s.recs[ri]
		r.desc = "repeat after burst: " + strings.TrimPrefix(strings.TrimPrefix(r.desc, "repeat: "), "repeat after burst: ")
		s.o.Probe("repeated-operation-after-burst")
		s.exec(r, ri)
	}
}

func prefixIf(p, s string) string {
	if s == "" {
		return ""
	}
	return p + s
}

func safeString(c xsel.Cursor) (out string) {
	defer func() {
		if r := recover(); r != nil {
			out = fmt.Sprintf("PANIC:%v", r)
		}
	}()
	return xsel.GetCursorString(c)
}

// I4: BuildExpr of the same string yields an equivalent query.
func (s *session) checkI4(pi int) {
	p := s.pool[pi]
	const K = 4
	s.o.Probe("rebuild-determinism-check")
	for k := 0; k < K; k++ {
		g, err, pan := safeBuild(p.Str)
		s.o.Evals++
		if pan != "" || err != nil {
			s.violate("I4-rebuild-differs", "rebuild-error", "BuildExpr(%q) succeeded before and now fails (%v %s)", p.Str, err, pan)
			return
		}
		if d := world.DumpGrammar(&g); d != p.dump {
			s.violate("I4-rebuild-differs", "rebuild-structure", "BuildExpr(%q) built a different parse structure on rebuild %d: %s", p.Str, k, model.FirstDiff(p.dump, d))
			return
		}
	}
	s.log("rebuilt e%d %d times: same structure", pi, K)
}

func (s *session) unmarshal() {
	if len(s.held) == 0 {
		return
	}
	h := s.held[s.t.Draw(len(s.held))]
	ti := s.t.Draw(len(world.UnmarshalTargets))
	var res xsel.NodeSet = h.slice
	if s.t.Bool(1, 2) && len(h.slice) > 0 {
		k := s.t.Draw(len(h.slice))
		res = h.slice[k : k+1]
	}
	v, err := s.w.ToValue(res)
	if err != nil {
		return
	}
	iso, _ := world.NewWorld(s.specs)
	opts := func() []xsel.ContextApply {
		return []xsel.ContextApply{xsel.WithNS("p", "urn:a"), xsel.WithNS("q", "urn:b"), xsel.WithVariable("s", xsel.String("sv")), xsel.WithVariable("n", xsel.Number(2))}
	}
	wantOut, wantFail, wantPan := world.DoUnmarshal(iso.FromValue(v), ti, opts()...)
	gotOut, gotFail, gotPan := world.DoUnmarshal(res, ti, opts()...)
	s.o.Evals += 2
	s.o.Steps++
	desc := fmt.Sprintf("Unmarshal(%s%s, %s)", h.name, map[bool]string{true: "[k:k+1]", false: ""}[len(res) == 1 && len(h.slice) != 1], world.UnmarshalTargets[ti].Name)
	s.o.Observe(desc, gotOut, fmt.Sprint(gotFail))
	s.log("%s -> fail=%v %s", desc, gotFail, gotOut)
	if gotFail {
		s.o.Fault("unmarshal-target-fails")
	}
	if gotPan != "" || wantPan != "" {
		s.violate("panic", "panic:Unmarshal", "%s panicked: %s%s", desc, gotPan, wantPan)
		return
	}
	if i := strings.Index(gotOut, "FIELD-MISMATCH: "); i >= 0 {
		// independent of anything cached in the process: the field does not hold
		// the result of its own tag query
		s.violate("I2-history-dependence", "unmarshal-field-differs-from-its-tag-query", "%s: %s (an earlier Unmarshal of another type influenced this one?)", desc, gotOut[i+len("FIELD-MISMATCH: "):])
	} else if gotFail != wantFail || gotOut != wantOut {
		s.violate("I2-history-dependence", "history-dependence:Unmarshal", "%s filled %s (fail=%v) in this history but %s (fail=%v) in a fresh world", desc, gotOut, gotFail, wantOut, wantFail)
	}
	s.checkI1(desc)
}

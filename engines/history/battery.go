package history

import (
	"fmt"

	"verif/engines/world"
	"verif/simkit"
)

// The battery: fixed queries over one fixed document whose answers a fresh
// process supplies (simkit.FreshReference). The items come in groups of near
// neighbours — values that a cache keyed too coarsely would confuse (0 and -0,
// 1 and 1.0, 2^53 and 2^53+1, 'en' and 'EN', the same name under two
// prefixes) — and are evaluated a few at a time, in tape-drawn order, in the
// middle of arbitrary histories. An answer that differs from the fresh
// process's answer depends on what the process did before.

var batteryDoc = world.DocSpec{Kind: "xml", Bytes: []byte(`<r xml:lang="en" xmlns:p="urn:a" xmlns:q="urn:b"><a id="1">0</a><a id="2">-0</a><a id="3" xml:lang="en-US"> 12 </a><b>1</b><b>1.0</b><p:c>x</p:c><q:c>y</q:c><c>z</c><d a="1" p:a="2" q:a="3"/><e><![CDATA[a]]>b</e><!--k--><?t u?></r>`)}

var batteryExprs = []string{
	// numbers and their printed form
	"0", "-0", "0 * -1", "1", "1.0", "-1", "- 1", "1 div 3", "2 div 6", "0.1 + 0.2", "0.3", "0.5", ".5", "-0.5",
	"1000000000000000", "1000000000000001", "9007199254740992", "9007199254740993", "1048575", "1048576", "-1048576", "123456789012345678901234567890",
	"1 div 0", "-1 div 0", "0 div 0", "-(0 div 0)", "round(-0.4)", "ceiling(-0.5)", "floor(0.5)", "round(2.5)", "round(-2.5)",
	"number('  12  ')", "number('1e3')", "number('')", "number(//a[1])", "number(//a[2])", "number(//a[3])", "count(//a)", "count(//zzz)", "string-length('')", "string-length(//e)",
	"5 mod 2", "-5 mod 2", "5 mod -2", "5.5 mod 2", "0 mod 5", "-0 mod 5",
	// strings
	"string(0)", "string(-0)", "string(0 * -1)", "string(1 div 0)", "string(0 div 0)", "string(//a[2])", "string(//a[1])", "string(1.0)", "string(100)", "string(0.000001)",
	"concat('a','b')", "concat('ab','')", "concat('', 'ab')", "translate('abc','abc','ABC')", "translate('abc','ab','A')", "translate('abc','abc','')",
	"normalize-space('  a  b ')", "normalize-space('a b')", "normalize-space(//a[3])", "substring('12345', 1.5, 2.6)", "substring('12345', 0, 3)", "substring('12345', 2)", "substring('12345', 0 div 0, 3)",
	"substring-before('1999/04/01','/')", "substring-after('1999/04/01','/')", "substring-before('abc','')", "substring-after('abc','c')",
	"string(true())", "string(false())", "name(//*[2])", "local-name(//@*[1])", "name(//p:c)", "name(//q:c)", "namespace-uri(//p:c)", "namespace-uri(//q:c)", "namespace-uri(//c)",
	"string(//p:c)", "string(//q:c)", "string(//c)", "string(//d/@a)", "string(//d/@p:a)", "string(//d/@q:a)", "string(//e)", "string(//comment())", "string(//processing-instruction())", "name(//processing-instruction())",
	// booleans
	"lang('en')", "lang('EN')", "lang('en-US')", "lang('fr')", "//a[3][lang('en-US')]", "//a[3][lang('en')]", "//a[1][lang('en-US')]",
	"//a = 0", "//a = '-0'", "//a = '0'", "'1' = 1", "'1.0' = 1", "true() = 1", "not('false')", "not('')", "not(0)", "not(-0)", "not(0 div 0)", "not(//zzz)",
	"1 < 2", "2 < 1", "'a' < 'b'", "//b = //b", "//b != //b", "//a < //b", "contains('abc','')", "contains('abc','bc')", "starts-with('abc','ab')", "starts-with('abc','')",
	// node-sets over the namespace-sensitive names
	"//p:c", "//q:c", "//c", "//*[local-name() = 'c']", "//@p:a", "//@q:a", "//@a", "//d/@*", "//a[@id = 2]", "//a[@id = '2']", "//a[. = 0]", "//*[. = 1]", "/r/*[last()]", "/r/node()[last()]", "//namespace::p", "//text()[. = 'x']",
}

func batteryKey(i int) string {
	if i < 0 || i >= len(batteryExprs) {
		return "no such item"
	}
	w, err := world.NewWorld([]world.DocSpec{batteryDoc})
	if err != nil {
		return "battery document does not parse: " + err.Error()
	}
	b := &world.Bindings{NS: map[string]string{"p": "urn:a", "q": "urn:b"}, Vars: map[string]world.Value{}}
	n := world.Eval(w, world.ExecReq{Expr: batteryExprs[i], Ctx: world.NodeRef{}, Bindings: b}, nil)
	return n.Key(w) + "  [" + n.Show(w) + "]"
}

// Reference is what a fresh process answers (simkit.Referencer).
func Reference(item int) string { return batteryKey(item) }

func (s *session) battery() {
	k := 1 + s.t.Draw(4)
	for j := 0; j < k; j++ {
		i := s.t.Draw(len(batteryExprs))
		// a neighbour of the previous item more often than not
		want, err := simkit.FreshReference("history", i)
		if err != nil {
			s.o.HarnessDoubt("fresh reference: %v", err)
			return
		}
		got := batteryKey(i)
		s.o.Evals++
		s.o.Probe("battery-item-compared-with-fresh-process")
		s.log("battery %d: %s -> %s", i, batteryExprs[i], got)
		if got != want {
			s.violate("I2-history-dependence", "answer-differs-from-fresh-process", "the query %q over the fixed document %s\nreturns %s here\nbut     %s in a fresh process: the answer depends on what this process evaluated before", batteryExprs[i], batteryDoc.Bytes, got, want)
			return
		}
	}
	_ = fmt.Sprint
}

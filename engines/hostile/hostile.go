// Package hostile is the fault-heavy engine of C15: corrupted / truncated /
// erroring streams into all three readers, failing and panicking callbacks,
// nil bindings, unfillable Unmarshal targets, boundary-class numeric arguments
// and token-mutated expression strings. Oracle: every entry point terminates
// with a value xor a non-nil error, never a panic, and a well-typed query never
// reports "xpath query panic".
package hostile

import (
	"context"
	"errors"
	"fmt"
	"io"
	"os"
	"reflect"
	"runtime/debug"
	"strings"
	"sync"
	"syscall"

	"github.com/ChrisTrenkamp/xsel"

	"verif/engines/stream"
	"verif/engines/world"
	"verif/model"
	"verif/simio"
	"verif/simkit"
)

const P = "C15"

type guard struct {
	o *simkit.Outcome
}

// call runs f under the monitor and classifies the outcome.
func (g guard) call(what, input string, f func() (any, error)) (val any, err error, ok bool) {
	defer func() {
		if r := recover(); r != nil {
			g.o.Violate(P, "panic", "panic:"+what, "%s panicked: %v\ninput: %s", what, r, input)
			ok = false
		}
	}()
	g.o.Evals++
	val, err = f()
	if err == nil && isNil(val) {
		g.o.Violate(P, "nil-nil", "nil-nil:"+what, "%s returned a nil result with a nil error\ninput: %s", what, input)
		return val, err, false
	}
	return val, err, true
}

func isNil(v any) bool {
	if v == nil {
		return true
	}
	rv := reflect.ValueOf(v)
	switch rv.Kind() {
	case reflect.Ptr, reflect.Interface, reflect.Map, reflect.Func, reflect.Chan:
		return rv.IsNil()
	}
	return false
}

func show(b []byte) string {
	s := fmt.Sprintf("%q", b)
	if len(s) > 600 {
		s = s[:600] + "…"
	}
	return s
}

// ---- hostile streams ----

var garbage = [][]byte{{0xff, 0xfe}, {0x00}, {0xc3}, {0xe2, 0x82}, {0xf0, 0x9f, 0x98}, {0xef, 0xbb, 0xbf}, []byte("<?xml version=\"1.0\" encoding=\"x-unknown\"?>"), []byte("<?xml version=\"1.0\" encoding=\"UTF-16\"?>"), []byte("<!DOCTYPE a [<!ENTITY e \"&e;&e;\">]>"), []byte("&e;"), []byte("<![CDATA["), []byte("\\ud800"), []byte("1e999"), []byte("</"), []byte("<!"), []byte("<svg><math><template>")}

func hostileBytes(t *simkit.Tape, base []byte) []byte {
	data := append([]byte(nil), base...)
	n := 1 + t.Draw(4)
	for i := 0; i < n; i++ {
		switch t.Pick(4, 2, 2, 1) {
		case 0:
			data, _ = stream.Corrupt(t, data, false)
		case 1: // byte-level garbage
			gb := garbage[t.Draw(len(garbage))]
			k := t.Draw(len(data) + 1)
			data = append(append(append([]byte(nil), data[:k]...), gb...), data[k:]...)
		case 2: // truncate
			if len(data) > 0 {
				data = data[:t.Draw(len(data))]
			}
		case 3: // deep nesting
			depth := 200 + t.Draw(3000)
			open := []string{"<a>", "[", "{\"a\":", "<div>", "<b><i>"}[t.Draw(5)]
			data = append([]byte(strings.Repeat(open, depth)), data...)
		}
	}
	return data
}

type hostileReader struct {
	t     *simkit.Tape
	data  []byte
	off   int
	mode  int
	reads int
	err   error
}

var errHostile = errors.New("hostile: injected failure")

// the error values a failing reader may return: sentinel errors that callers
// like to special-case, wrapped and unwrapped
var hostileErrs = []error{errHostile, io.ErrUnexpectedEOF, fmt.Errorf("read body: %w", io.ErrUnexpectedEOF), io.ErrClosedPipe, io.ErrNoProgress,
	fmt.Errorf("wrapped: %w", io.EOF), os.ErrDeadlineExceeded, context.DeadlineExceeded, context.Canceled, syscall.EINTR, syscall.ECONNRESET, io.ErrShortBuffer}

func (r *hostileReader) Read(p []byte) (int, error) {
	r.reads++
	errHostile := r.err
	if errHostile == nil {
		errHostile = hostileErrs[0]
	}
	if r.reads > 100000 {
		return 0, errHostile
	}
	switch r.mode {
	case 1: // fail on the first read
		return 0, errHostile
	case 2: // data together with an error, every time
		if r.off >= len(r.data) {
			return 0, io.EOF
		}
		n := copy(p, r.data[r.off:])
		if n > 7 {
			n = 7
		}
		r.off += n
		if r.off >= len(r.data) {
			return n, errHostile
		}
		return n, nil
	case 3: // fails when EOF was nearly reached
		if len(r.data)-r.off <= 2 {
			return 0, errHostile
		}
	case 4: // returns more than it should never happen; returns n=0,nil a few times then data
		if r.reads%3 != 0 {
			return 0, nil
		}
	}
	if r.off >= len(r.data) {
		return 0, io.EOF
	}
	n := copy(p, r.data[r.off:])
	if r.mode == 0 && n > 1 {
		n = 1 + r.t.Draw(n)
	}
	r.off += n
	return n, nil
}

func streams(t *simkit.Tape, o *simkit.Outcome, g guard) {
	kind := []string{"xml", "json", "html"}[t.Draw(3)]
	var base []byte
	switch kind {
	case "xml":
		cfg := model.DrawXMLConfig(t)
		base = model.SerialiseXML(t, cfg, model.GenXML(t, cfg)).Bytes
	case "json":
		cfg := model.DrawJSONConfig(t)
		base = model.SerialiseJSON(t, cfg, model.GenJSON(t, cfg))
	default:
		hc := model.DrawHTMLConfig(t)
		hc.Huge = 0
		base = model.GenHTML(t, hc)
	}
	n := 2 + t.Draw(6)
	for i := 0; i < n; i++ {
		data := hostileBytes(t, base)
		mode := t.Pick(5, 1, 1, 1, 1)
		o.Fault(fmt.Sprintf("hostile-stream:%s:reader-mode-%d", kind, mode))
		// each reader gets the bytes regardless of their nominal kind
		for _, rk := range []string{kind, []string{"xml", "json", "html"}[t.Draw(3)]} {
			rd := &hostileReader{t: t, data: data, mode: mode, err: hostileErrs[t.Draw(len(hostileErrs))]}
			var c any
			var err error
			var ok bool
			switch rk {
			case "xml":
				c, err, ok = g.call("ReadXml", show(data), func() (any, error) { x, e := xsel.ReadXml(rd); return x, e })
			case "json":
				c, err, ok = g.call("ReadJson", show(data), func() (any, error) { x, e := xsel.ReadJson(rd); return x, e })
			default:
				c, err, ok = g.call("ReadHtml", show(data), func() (any, error) { x, e := xsel.ReadHtml(rd); return x, e })
			}
			o.Steps += rd.reads
			if !ok {
				return
			}
			if mode == 1 && err == nil && !errors.Is(rd.err, io.EOF) { // an error wrapping io.EOF is an odd way to say "end of input"
				o.Violate(P, "error-swallowed", "error-swallowed:first-read", "Read%s returned a tree although the very first read failed", rk)
			}
			// whatever tree came back must be queryable without crashing
			if err == nil && t.Bool(1, 3) {
				cur := c.(xsel.Cursor)
				expr := []string{"//*", "count(//node())", "string(/)", "//@*", "//*/namespace::*", "name(//*[last()])", "//text()[1]", "/descendant::node()[last()]/ancestor-or-self::node()"}[t.Draw(8)]
				gr, gerr := xsel.BuildExpr(expr)
				if gerr == nil {
					g.call("Exec", expr+" on tree read from "+show(data), func() (any, error) { return xsel.Exec(cur, &gr) })
				}
			}
		}
	}
}

// ---- hostile queries ----

func queries(t *simkit.Tape, o *simkit.Outcome, g guard) {
	spec := world.GenDocSpec(t)
	w, err := world.NewWorld([]world.DocSpec{spec})
	if err != nil {
		o.HarnessDoubt("document does not parse: %v", err)
		return
	}
	elems, attrs, pis := w.Names()
	env := &model.ExprEnv{ElemNames: elems, AttrNames: attrs, PITargets: pis, Prefixes: []string{"p", "q"},
		NumVars: []string{"n"}, StrVars: []string{"s"}, BoolVars: []string{"b"}, NSVars: []string{"v"}, Boundary: true}
	hostileCB := t.Bool(1, 3)
	nilVar := t.Bool(1, 8)
	oddNS := t.Bool(1, 6)
	kinds := []string{"fail", "panic", "nilnil", "const"}
	var funcs []world.FuncSpec
	if hostileCB {
		k := kinds[t.Draw(len(kinds))]
		funcs = append(funcs, world.FuncSpec{Name: "f", Kind: k, At: t.Draw(3) - 1, Const: world.Value{Type: "number", Num: 1}, Ret: model.TNum, Arity: t.Draw(2)})
		env.Funcs = append(env.Funcs, model.FuncSig{Name: "f", Arity: funcs[0].Arity, Ret: model.TNum})
		o.Fault("hostile-callback:" + k)
	}
	n := 3 + t.Draw(10)
	for i := 0; i < n; i++ {
		str, _ := model.GenExprAny(t, env)
		mutated := false
		if t.Bool(1, 60) {
			// long / deeply nested but valid expressions (parser recursion, quadratic paths)
			k := 20 + t.Draw(130)
			switch t.Draw(8) {
			case 0:
				str = strings.Repeat("(", k) + str + strings.Repeat(")", k)
			case 1:
				str = strings.Repeat("*|", k) + "*"
			case 2:
				str = strings.Repeat("*/", k) + "*"
			case 3:
				str = "*" + strings.Repeat("[1]", k)
			case 4:
				str = strings.Repeat("1+", k) + "1"
			case 5:
				str = strings.Repeat("-", k) + "1"
			case 6:
				str = strings.Repeat("not(", k) + "1" + strings.Repeat(")", k)
			case 7:
				str = strings.Repeat("*[", k) + "1" + strings.Repeat("]", k)
			}
			o.Fault("long-or-deep-expression")
		}
		if t.Bool(1, 4) {
			str = mutateExpr(t, str)
			mutated = true
			o.Fault("mutated-expression")
		}
		gv, berr, ok := g.call("BuildExpr", fmt.Sprintf("%q", str), func() (any, error) { x, e := xsel.BuildExpr(str); return &x, e })
		if !ok {
			return
		}
		if berr != nil {
			if !mutated {
				o.Probe("generated-expression-rejected")
			}
			continue
		}
		gr := gv.(*xsel.Grammar)
		ctx := w.Docs[0].Snap.Cursors[t.Draw(len(w.Docs[0].Snap.Cursors))]
		opts := []xsel.ContextApply{xsel.WithNS("p", "urn:a"), xsel.WithNS("q", "urn:b"),
			xsel.WithVariable("n", xsel.Number([]float64{0, 1, -1, 0.5, 1e300}[t.Draw(5)])), xsel.WithVariable("s", xsel.String("a")), xsel.WithVariable("b", xsel.Bool(true)),
			xsel.WithVariable("v", xsel.NodeSet{w.Docs[0].Cursor})}
		if oddNS {
			opts = append(opts, xsel.WithNS("p", ""), xsel.WithNS("", "urn:odd"), xsel.WithNS("q", " "))
			o.Fault("odd-namespace-bindings")
		}
		if nilVar {
			opts = append(opts, xsel.WithVariable("s", nil))
			o.Fault("variable-bound-to-nil")
		}
		cbActed := false
		for _, fs := range funcs {
			fs := fs
			calls := 0
			opts = append(opts, xsel.WithFunction(fs.Name, func(ctx xsel.Context, args ...xsel.Result) (xsel.Result, error) {
				k := calls
				calls++
				if fs.At >= 0 && fs.At != k {
					return xsel.Number(1), nil
				}
				switch fs.Kind {
				case "fail":
					return nil, errHostile
				case "panic":
					cbActed = true
					panic([]any{"hostile", errHostile, 42, nil}[k%4])
				case "nilnil":
					cbActed = true
					return nil, nil
				}
				return xsel.Number(1), nil
			}))
		}
		var res any
		var xerr error
		switch t.Draw(4) {
		case 0:
			res, xerr, ok = g.call("Exec", fmt.Sprintf("%q", str), func() (any, error) { return xsel.Exec(ctx, gr, opts...) })
		case 1:
			res, xerr, ok = g.call("ExecAsString", fmt.Sprintf("%q", str), func() (any, error) { return xsel.ExecAsString(ctx, gr, opts...) })
		case 2:
			res, xerr, ok = g.call("ExecAsNumber", fmt.Sprintf("%q", str), func() (any, error) { return xsel.ExecAsNumber(ctx, gr, opts...) })
		default:
			res, xerr, ok = g.call("ExecAsNodeset", fmt.Sprintf("%q", str), func() (any, error) {
				ns, e := xsel.ExecAsNodeset(ctx, gr, opts...)
				if e == nil && ns == nil {
					return xsel.NodeSet{}, nil
				}
				return ns, e
			})
		}
		_ = res
		if !ok {
			return
		}
		o.Steps++
		if xerr != nil && strings.Contains(xerr.Error(), "xpath query panic") && !mutated && !cbActed && !nilVar {
			o.Violate(P, "internal-panic-error", panicSig(xerr.Error()), "a well-typed query failed with an internal panic: %v\nexpression: %s", firstLine(xerr.Error()), str)
		}
		if xerr == nil && !mutated {
			o.Probe("well-typed-query-evaluated")
		}
	}
}

func panicSig(msg string) string {
	switch {
	case strings.Contains(msg, "divide by zero"):
		return "xpath-query-panic:integer-divide-by-zero"
	case strings.Contains(msg, "slice bounds"):
		return "xpath-query-panic:slice-bounds"
	case strings.Contains(msg, "index out of range"):
		return "xpath-query-panic:index-out-of-range"
	case strings.Contains(msg, "nil pointer"):
		return "xpath-query-panic:nil-pointer"
	case strings.Contains(msg, "interface conversion"):
		return "xpath-query-panic:interface-conversion"
	}
	return "xpath-query-panic:other"
}

func firstLine(s string) string {
	if i := strings.IndexByte(s, '\n'); i >= 0 {
		s = s[:i]
	}
	return s
}

var exprTokens = []string{"\t", "\n", "\t/", "[\t", "(", ")", "[", "]", "/", "//", "|", "@", "::", "*", "'", "\"", ",", "$", ".", "..", " and ", " or ", " div ", " mod ", "-", "=", "!=", "<", "1", "é", "#", ":", "child", "text()", "\x00", "\\", "💥"}

func mutateExpr(t *simkit.Tape, s string) string {
	rs := []rune(s)
	n := 1 + t.Draw(3)
	for i := 0; i < n; i++ {
		switch t.Pick(3, 3, 2, 2) {
		case 0: // delete a rune range
			if len(rs) > 0 {
				a := t.Draw(len(rs))
				b := a + 1 + t.Draw(3)
				if b > len(rs) {
					b = len(rs)
				}
				rs = append(rs[:a:a], rs[b:]...)
			}
		case 1: // insert a token
			a := t.Draw(len(rs) + 1)
			tok := []rune(exprTokens[t.Draw(len(exprTokens))])
			rs = append(rs[:a:a], append(tok, rs[a:]...)...)
		case 2: // duplicate a range
			if len(rs) > 0 {
				a := t.Draw(len(rs))
				b := a + 1 + t.Draw(6)
				if b > len(rs) {
					b = len(rs)
				}
				rs = append(rs[:b:b], append(append([]rune(nil), rs[a:b]...), rs[b:]...)...)
			}
		case 3: // swap two runes
			if len(rs) > 1 {
				a, b := t.Draw(len(rs)), t.Draw(len(rs))
				rs[a], rs[b] = rs[b], rs[a]
			}
		}
	}
	return string(rs)
}

// ---- unfillable Unmarshal targets ----

type tTagged struct {
	A string `xsel:"."`
}
type tUnexported struct {
	a string `xsel:"."`
}
type tIface struct {
	A any `xsel:"."`
}
type tMapField struct {
	M map[string]string `xsel:"*"`
}
type tArrField struct {
	A [2]string `xsel:"*"`
}
type tChanField struct {
	C chan int `xsel:"."`
}
type tNested struct {
	S [][]string `xsel:"*"`
}
type tFunc struct {
	F func() `xsel:"."`
}
type tDeep struct {
	P ***tTagged `xsel:"."`
	Q []***int    `xsel:"*"`
}
type tBadExpr struct {
	A string `xsel:"((("`
}
type tErrExpr struct {
	A string `xsel:"unknown-function()"`
}
// recursive target types: the tag query of the recursive field decides whether
// filling terminates
type tSelfDot struct {
	Name string    `xsel:"name()"`
	Next *tSelfDot `xsel:"."`
}
type tSelfParent struct {
	Up *tSelfParent `xsel:".."`
}
type tSelfSlice struct {
	Kids []tSelfSlice `xsel:"descendant-or-self::node()"`
}
// recursion through nodes that alternate (child <-> parent, sibling <-> sibling)
type tAltParent struct {
	Kid *tAltChild `xsel:"*[1]"`
}
type tAltChild struct {
	Up *tAltParent `xsel:".."`
}
type tAltSib struct {
	Next []tAltSibBack `xsel:"following-sibling::*[1]"`
}
type tAltSibBack struct {
	Prev []tAltSib `xsel:"preceding-sibling::*[1]"`
}
type tMutualA struct {
	B *tMutualB `xsel:"."`
}
type tMutualB struct {
	A tMutualA `xsel:"self::node()"`
}

// embedded (anonymous) fields: by value and by pointer, exported and not,
// tagged and untagged, nil and allocated
type tBaseExp struct {
	ID string `xsel:"name()"`
}
type tbaseUnexp struct {
	ID string `xsel:"name()"`
}
type tEmbPtrUnexp struct {
	*tbaseUnexp
	Name string `xsel:"."`
}
type tEmbValUnexp struct {
	tbaseUnexp
	Name string `xsel:"."`
}
type tEmbPtrExp struct {
	*tBaseExp
	Name string `xsel:"."`
}
type tEmbValExp struct {
	tBaseExp
	Name string `xsel:"."`
}
type tEmbTagged struct {
	*tbaseUnexp `xsel:"."`
	tBaseExp    `xsel:"*"`
}
type tEmbIface struct {
	fmt.Stringer
	Name string `xsel:"."`
}

type tComplex struct {
	C complex128 `xsel:"."`
	U uintptr    `xsel:"."`
}

func targets() []struct {
	name string
	mk   func() any
} {
	var nilT *tTagged
	var nilPP **tTagged
	var nilSlice *[]string
	var iface any
	return []struct {
		name string
		mk   func() any
	}{
		{"nil", func() any { return nil }},
		{"struct value", func() any { return tTagged{} }},
		{"nil *struct", func() any { return nilT }},
		{"nil **struct", func() any { return nilPP }},
		{"**struct with nil inner", func() any { var p *tTagged; return &p }},
		{"nil *[]string", func() any { return nilSlice }},
		{"[]string value", func() any { return []string{} }},
		{"map", func() any { return map[string]string{} }},
		{"*map", func() any { m := map[string]string{}; return &m }},
		{"array", func() any { return [2]string{} }},
		{"*array", func() any { return &[2]string{} }},
		{"chan", func() any { return make(chan int) }},
		{"*chan", func() any { c := make(chan int); return &c }},
		{"*[][]string", func() any { return &[][]string{} }},
		{"*[]map", func() any { return &[]map[string]string{} }},
		{"*[]chan", func() any { return &[]chan int{} }},
		{"*[]any", func() any { return &[]any{} }},
		{"*[]func", func() any { return &[]func(){} }},
		{"*int", func() any { i := 0; return &i }},
		{"int", func() any { return 0 }},
		{"string", func() any { return "" }},
		{"*string", func() any { s := ""; return &s }},
		{"func", func() any { return func() {} }},
		{"*any(nil)", func() any { return &iface }},
		{"*any(struct)", func() any { var x any = &tTagged{}; return &x }},
		{"*unexported tagged", func() any { return &tUnexported{} }},
		{"*interface field", func() any { return &tIface{} }},
		{"*map field", func() any { return &tMapField{} }},
		{"*array field", func() any { return &tArrField{} }},
		{"*chan field", func() any { return &tChanField{} }},
		{"*[][] field", func() any { return &tNested{} }},
		{"*func field", func() any { return &tFunc{} }},
		{"*deep pointers", func() any { return &tDeep{} }},
		{"*bad tag expr", func() any { return &tBadExpr{} }},
		{"*failing tag expr", func() any { return &tErrExpr{} }},
		{"*complex/uintptr fields", func() any { return &tComplex{} }},
		{"*[]struct value elems", func() any { return &[]tTagged{} }},
		{"*[]*unexported", func() any { return &[]*tUnexported{} }},
		{"*anonymous struct (3 fields)", func() any {
			return &struct {
				A string `xsel:"name()"`
				B string `xsel:"."`
				C int    `xsel:"count(*)"`
			}{}
		}},
		{"*anonymous struct (1 field)", func() any {
			return &struct {
				A float64 `xsel:"count(node())"`
			}{}
		}},
		{"*local type T (2 fields)", func() any {
			type T struct {
				A string `xsel:"name()"`
				B string `xsel:"."`
			}
			return &T{}
		}},
		{"*local type T (1 field)", func() any {
			type T struct {
				A string `xsel:"."`
			}
			return &T{}
		}},
		{"*embedded nil *unexported", func() any { return &tEmbPtrUnexp{} }},
		{"*embedded allocated *unexported", func() any { return &tEmbPtrUnexp{tbaseUnexp: &tbaseUnexp{}} }},
		{"*embedded unexported value", func() any { return &tEmbValUnexp{} }},
		{"*embedded nil *exported", func() any { return &tEmbPtrExp{} }},
		{"*embedded exported value", func() any { return &tEmbValExp{} }},
		{"*embedded fields with tags", func() any { return &tEmbTagged{} }},
		{"*embedded interface", func() any { return &tEmbIface{} }},
		{"*[]embedded nil *unexported", func() any { return &[]tEmbPtrUnexp{} }},
		{"*self-referential struct (.)", func() any { return &tSelfDot{} }},
		{"*self-referential struct (..)", func() any { return &tSelfParent{} }},
		{"*self-referential slice", func() any { return &tSelfSlice{} }},
		{"*mutually recursive structs", func() any { return &tMutualA{} }},
		{"*mutually recursive child/parent structs", func() any { return &tAltParent{} }},
		{"*mutually recursive sibling structs", func() any { return &tAltSib{} }},
		{"reflect.Value", func() any { return reflect.ValueOf(&tTagged{}) }},
		{"unsafe-ish uintptr", func() any { return uintptr(0) }},
	}
}

func unmarshals(t *simkit.Tape, o *simkit.Outcome, g guard) {
	spec := world.GenDocSpec(t)
	w, err := world.NewWorld([]world.DocSpec{spec})
	if err != nil {
		o.HarnessDoubt("document does not parse: %v", err)
		return
	}
	d := w.Docs[0]
	ts := targets()
	n := 4 + t.Draw(10)
	for i := 0; i < n; i++ {
		var res xsel.Result
		switch t.Pick(3, 3, 2, 1, 1, 1, 1) {
		case 0:
			res = xsel.NodeSet{d.Snap.Cursors[t.Draw(len(d.Snap.Cursors))]}
		case 1:
			k := t.Draw(len(d.Snap.Cursors))
			res = xsel.NodeSet(d.Snap.Cursors[k:])
		case 2:
			res = xsel.NodeSet{}
		case 3:
			res = xsel.String("x")
		case 4:
			res = xsel.Number(1)
		case 5:
			res = xsel.Bool(true)
		case 6:
			res = nil
			o.Fault("unmarshal-nil-result")
		}
		ti := t.Draw(len(ts))
		for strings.Contains(ts[ti].name, "recursive") || strings.Contains(ts[ti].name, "self-referential") {
			// these cost ~500 nested tag queries each once the depth bound works: keep them rare
			if t.Bool(1, 12) {
				break
			}
			ti = t.Draw(len(ts))
		}
		tg := ts[ti]
		o.Fault("unfillable-target")
		desc := fmt.Sprintf("Unmarshal(%T len=%d, %s)", res, resLen(res), tg.name)
		_, _, ok := g.call("Unmarshal", desc, func() (any, error) {
			e := xsel.Unmarshal(res, tg.mk(), xsel.WithNS("p", "urn:a"))
			if e == nil {
				return true, nil
			}
			return nil, e
		})
		o.Steps++
		if !ok {
			// report the target kind in the signature so that distinct holes are distinct findings
			if l := len(o.Violations); l > 0 && o.Violations[l-1].Class == "panic" {
				o.Violations[l-1].Signature = "panic:Unmarshal:" + sigTarget(tg.name, res)
			}
			return
		}
	}
}

func sigTarget(name string, res xsel.Result) string {
	if res == nil {
		return "nil-result"
	}
	switch name {
	case "nil":
		return "nil-target"
	case "struct value":
		return "non-pointer-struct"
	case "nil *struct", "nil **struct", "**struct with nil inner", "nil *[]string":
		return "nil-pointer"
	}
	return strings.ReplaceAll(name, " ", "-")
}

func resLen(r xsel.Result) int {
	if ns, ok := r.(xsel.NodeSet); ok {
		return len(ns)
	}
	return -1
}

var stackOnce sync.Once

// Run is the C15 engine.
func Run(t *simkit.Tape, o *simkit.Outcome, full bool) {
	// unbounded recursion must end the process quickly (attributed to the run)
	// instead of growing a 1 GB stack
	stackOnce.Do(func() { debug.SetMaxStack(16 << 20) })
	g := guard{o}
	part := t.Pick(3, 4, 2)
	switch part {
	case 0:
		streams(t, o, g)
	case 1:
		queries(t, o, g)
	case 2:
		unmarshals(t, o, g)
	}
	o.Probe([]string{"part:streams", "part:queries", "part:unmarshal"}[part])
	if full {
		o.Scenario = map[string]any{"part": []string{"hostile streams", "hostile queries", "unfillable unmarshal targets"}[part], "faults": o.Faults}
	}
	o.NonTrivial = len(o.Faults) > 0 || o.Evals > 3
	o.Fingerprint = simkit.Hash64(fmt.Sprint(t.Recorded()))
	_ = simio.ErrInjected
}

//go:build verif && !race

package schedlib

const RaceBuild = false

func raceErrors() int { return 0 }

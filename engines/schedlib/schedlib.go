//go:build verif

// Package schedlib is the library half of C14: 2-4 simulated tasks execute
// queries concurrently on ONE cursor tree, ONE set of compiled expressions and
// ONE set of bindings, under scheduler L (turn token without happens-before
// edges). It only builds inside the overlay that provides
// github.com/ChrisTrenkamp/xsel/verifhook and the yield-instrumented sources.
package schedlib

import (
	"fmt"
	"os"
	"path/filepath"
	"runtime"
	"strings"

	"github.com/ChrisTrenkamp/xsel"
	"github.com/ChrisTrenkamp/xsel/verifhook"

	"verif/engines/world"
	"verif/model"
	"verif/simkit"
)

const P = "C14"

type op struct {
	kind   string // exec, unmarshal, string, build
	pool   int
	ctx    world.NodeRef
	own    bool
	target int
	parse  world.DocSpec
	want   world.Norm
	wantS  string
	wantF  bool
	desc   string
	// filled by the task
	got   world.Norm
	gotS  string
	gotF  bool
	gotP  string
	done  bool
}

type poolEntry struct {
	world.PoolExpr
	g    *xsel.Grammar
	err  error
	dump string
}

var seedExprs = []string{"//*/@*", "/*/@*", "/*/*/@*", "//*[1]/@*", "//*/@* | $v", "/*/*[position() < 3]/@*", "/*/*[position() != 2]/@*", "/*/*[1]/* | /*/*[2]/*", "/*/*[position() < 3]/node()", "$v | //*", "$w | $v", "//*/ancestor::* | $v", "$v[1] | $w[last()]", "//*", "//node()/preceding-sibling::node()", "count($v | //@*)", "$v/.. | //text()", "//*[. = $v]", "($v | $w)[position() mod 2 = 1]", "//*/namespace::* | $w", "$w/descendant-or-self::node() | $v"}
// every builtin with two different arguments, so that hidden per-function
// state (caches, scratch buffers) is reached by concurrent, differing calls
var builtinGroups = [][]string{
	{"//*[lang('en')]", "count(//*[lang('de')])", "//*[lang('en-US')]", "//*[lang('fr')]", "//*[lang('en-GB')]"},
	{"string-length(string(/))", "string-length('abc')", "string-length(name(/*))"},
	{"normalize-space(' a  b ')", "normalize-space(string(/))"},
	{"translate('abc','ab','xy')", "translate(string(/),'a','b')"},
	{"concat('a','b',string(/))", "concat(name(/*),'x')"},
	{"substring('abcdef',2,3)", "substring(string(/),1,4)"},
	{"substring-before('a-b','-')", "substring-after(string(/),'a')", "substring-before(string(/),'b')"},
	{"starts-with(name(/*),'a')", "contains(string(/),'b')", "contains('abc','c')"},
	{"sum(//*)", "sum(//@*)"},
	{"floor(1.5)", "ceiling(count(//*) div 2)", "round(2.5)", "round(count(//*) div 3)"},
	{"number('12')", "number(/)", "number(//@*)"},
	{"name(//*[last()])", "local-name(//@*)", "namespace-uri(/*)", "name(/*)"},
	{"count(//node())", "count(//@*)", "not(//*)"},
	{"//*[position() = last()]", "//*[last() - 1]", "//*[position() > 1]"},
	{"string(//text())", "string(/)", "string(//@*)"},
	{"//*/namespace::*[name() = 'xml']", "//*/namespace::*"},
	{"//p:* | //q:*", "//*:a | //*:b", "//p:*/@q:*"},
}

var holdExprs = []string{"//*/ancestor::*", "//*", "//node()/preceding-sibling::node()", "//*[last()]/ancestor-or-self::*", "//@*", "//text()", "/*/*"}

func raceLogTail() string {
	lp := os.Getenv("VERIF_RACE_LOG")
	if lp == "" {
		return ""
	}
	files, _ := filepath.Glob(lp + ".*")
	var b strings.Builder
	for _, f := range files {
		if strings.HasSuffix(f, fmt.Sprint(os.Getpid())) {
			data, _ := os.ReadFile(f)
			b.Write(data)
		}
	}
	s := b.String()
	return s
}

var raceLogSeen int

// Run is the sched-lib engine.
func Run(t *simkit.Tape, o *simkit.Outcome, full bool) {
	runtime.GOMAXPROCS(1)
	var specs []world.DocSpec
	nd := 1 + t.Pick(4, 1)
	for i := 0; i < nd; i++ {
		specs = append(specs, world.GenDocSpec(t))
	}
	w, err := world.NewWorld(specs)
	if err != nil {
		o.HarnessDoubt("generated document does not parse: %v", err)
		return
	}
	if d := w.Changed(); d != "" {
		o.Probe("fresh-tree-has-structural-problem")
		return
	}
	elems, attrs, pis := w.Names()
	env := &model.ExprEnv{ElemNames: elems, AttrNames: attrs, PITargets: pis, Prefixes: []string{"p", "q"},
		NumVars: []string{"n"}, StrVars: []string{"s"}, BoolVars: []string{"b"}, NSVars: []string{"v", "w"}}
	bind := &world.Bindings{NS: map[string]string{"p": "urn:a", "q": "urn:b"}, Vars: map[string]world.Value{
		"n": {Type: "number", Num: float64(t.Draw(5))}, "s": {Type: "string", Str: []string{"a", "", "en"}[t.Draw(3)]}, "b": {Type: "bool", Bool: t.Bool(1, 2)}}}
	var log []string

	// shared node-set variables: results of earlier (serial) queries, possibly
	// re-sliced so that they have spare capacity
	shared := map[string]xsel.NodeSet{}
	for _, name := range []string{"v", "w"} {
		str := holdExprs[t.Draw(len(holdExprs))]
		g, gerr := xsel.BuildExpr(str)
		if gerr != nil {
			o.HarnessDoubt("seed expression rejected: %s", str)
			return
		}
		ns, nerr := xsel.ExecAsNodeset(w.Cursor(world.NodeRef{}), &g)
		if nerr != nil {
			o.HarnessDoubt("seed query failed: %s", str)
			return
		}
		how := str
		if len(ns) > 1 && t.Bool(1, 2) {
			j := 1 + t.Draw(len(ns)-1)
			ns = ns[:j]
			how += fmt.Sprintf("[:%d]", j)
		}
		if cap(ns) > len(ns) {
			o.Probe("shared-variable-with-spare-capacity")
		}
		if len(ns) >= 2 && ns[0].Pos() > ns[len(ns)-1].Pos() {
			o.Probe("shared-variable-in-reverse-order")
		}
		shared[name] = ns
		v, verr := w.ToValue(ns)
		if verr != nil {
			o.HarnessDoubt("seed result has foreign nodes")
			return
		}
		bind.Vars[name] = v
		log = append(log, fmt.Sprintf("$%s = ExecAsNodeset(/, %s) len %d cap %d", name, how, len(ns), cap(ns)))
	}
	sharedOrig := map[string][]xsel.Cursor{}
	for k, v := range shared {
		sharedOrig[k] = append([]xsel.Cursor(nil), v...)
	}
	// a callback that hands out a shared slice
	if t.Bool(1, 2) {
		bind.Funcs = append(bind.Funcs, world.FuncSpec{Name: "g", Kind: "held", Const: bind.Vars["v"], Ret: model.TNodeSet})
		env.Funcs = append(env.Funcs, model.FuncSig{Name: "g", Arity: 0, Ret: model.TNodeSet})
	}

	// "any number of goroutines": now and then a crowd of 16-32 tasks, each
	// inside one deeply nested evaluation when the others arrive (whatever the
	// library counts or keeps per evaluation then exists 16-32 times at once)
	crowd := 0
	if t.Bool(1, 60) {
		crowd = []int{16, 24, 32}[t.Draw(3)]
		o.Probe("crowd-of-tasks")
	}
	// the shared pool of compiled expressions
	var pool []*poolEntry
	np := 2 + t.Draw(5)
	forced := ""
	deepIdx := -1
	if crowd > 0 {
		k := 6 + t.Draw(16)
		forced = "count(//*" + strings.Repeat("[.//* or not(*)", k) + strings.Repeat("]", k) + ")"
	}
	capBase, capStep := t.Draw(len(world.CapacityExprs)), t.Draw(len(world.CapacityExprs)-1)
	for i := 0; i < np; i++ {
		var pe poolEntry
		if specs[0].Family == "capacity" && i < 2 {
			pe.Str, pe.Type = world.CapacityExprs[(capBase+i*(1+capStep))%len(world.CapacityExprs)], model.TNodeSet
		} else if forced != "" {
			pe.Str, pe.Type = forced, model.TStr
			if crowd > 0 && deepIdx < 0 {
				deepIdx, pe.Type = i, model.TNum
			}
			forced = ""
		} else {
			switch t.Pick(3, 3, 2) {
			case 0:
				pe.Str, pe.Type = seedExprs[t.Draw(len(seedExprs))], model.TNodeSet
			case 1:
				pe.Str, pe.Type = model.GenExprAny(t, env)
			default:
				// a builtin together with a sibling call of the same builtin with
				// another argument (next pool entry)
				grp := builtinGroups[t.Draw(len(builtinGroups))]
				a := t.Draw(len(grp))
				b := (a + 1 + t.Draw(len(grp)-1)) % len(grp)
				pe.Str, pe.Type = grp[a], model.TStr
				forced = grp[b]
			}
		}
		g, gerr := xsel.BuildExpr(pe.Str)
		if gerr != nil {
			pe.err = gerr
		} else {
			pe.g = &g
			// The shared object must stay COLD until the tasks start (a lazily
			// filled memo inside it would otherwise be warmed by the harness):
			// its baseline face is taken from a separately built twin.
			if twin, terr := xsel.BuildExpr(pe.Str); terr == nil {
				pe.dump = world.DumpGrammar(&twin)
			}
		}
		pool = append(pool, &pe)
		log = append(log, fmt.Sprintf("e%d = BuildExpr(%q)", i, pe.Str))
	}
	poolSpecs := make([]world.PoolExpr, len(pool))
	for i, p := range pool {
		poolSpecs[i] = p.PoolExpr
	}
	// one set of bindings installed as caller-owned maps (like the CLI does)
	ownNS := map[string]string{"p": "urn:a", "q": "urn:b"}
	ownVars := map[xsel.XmlName]xsel.Result{}
	for name, v := range bind.Vars {
		if s, ok := shared[name]; ok {
			ownVars[xsel.XmlName{Local: name}] = s
		} else {
			ownVars[xsel.XmlName{Local: name}] = w.FromValue(v)
		}
	}
	ownVarsBefore := map[xsel.XmlName]xsel.Result{}
	for k, v := range ownVars {
		ownVarsBefore[k] = v
	}
	ownNSBefore := map[string]string{"p": "urn:a", "q": "urn:b"}

	// tasks and their scripts; expected results from isolated worlds
	nt := []int{2, 3, 4, 6, 8}[t.Pick(16, 8, 4, 1, 1)] // "any number of goroutines"
	if crowd > 0 {
		nt = crowd
	}
	tasks := make([][]*op, nt)
	for ti := range tasks {
		nops := 1 + t.Draw(5)
		if crowd > 0 {
			nops = 1
		}
		for k := 0; k < nops; k++ {
			o1 := &op{}
			d := t.Draw(len(w.Docs))
			o1.ctx = world.NodeRef{Doc: d}
			if t.Bool(1, 2) {
				o1.ctx.Idx = t.Draw(len(w.Docs[d].Snap.Cursors))
			}
			o1.pool = t.Draw(len(pool))
			switch t.Pick(8, 1, 1, 1, 2) {
			case 4:
				// what every CLI worker does first: parse a document (concurrently with
				// other workers parsing and querying)
				o1.kind = "parse"
				o1.parse = world.GenDocSpec(t)
				o1.desc = fmt.Sprintf("Read%s(%d bytes)", o1.parse.Kind, len(o1.parse.Bytes))
			case 0:
				o1.kind = "exec"
				o1.own = t.Bool(1, 2)
				o1.desc = fmt.Sprintf("Exec(%s, e%d%s)", w.PathOf(o1.ctx), o1.pool, map[bool]string{true: ", caller-owned maps"}[o1.own])
			case 1:
				o1.kind = "unmarshal"
				o1.target = t.Draw(len(world.UnmarshalTargets))
				o1.desc = fmt.Sprintf("Unmarshal($v, %s)", world.UnmarshalTargets[o1.target].Name)
			case 2:
				o1.kind = "string"
				o1.desc = fmt.Sprintf("GetCursorString(%s)", w.PathOf(o1.ctx))
			case 3:
				o1.kind = "build"
				o1.desc = fmt.Sprintf("BuildExpr(%q)", pool[o1.pool].Str)
			}
			tasks[ti] = append(tasks[ti], o1)
		}
	}
	if t.Bool(1, 6) {
		// like the workers of the CLI: every task begins by reading a document
		o.Probe("every-task-parses-first")
		for ti := range tasks {
			x := &op{kind: "parse", parse: world.GenParseSpec(t)}
			x.desc = fmt.Sprintf("Read%s(%d bytes)", x.parse.Kind, len(x.parse.Bytes))
			tasks[ti] = append([]*op{x}, tasks[ti]...)
		}
	}
	if crowd > 0 && deepIdx >= 0 {
		for ti := range tasks {
			x := tasks[ti][0]
			x.kind, x.pool, x.own = "exec", deepIdx, false
			x.desc = fmt.Sprintf("Exec(%s, e%d)", w.PathOf(x.ctx), deepIdx)
		}
	}
	if specs[0].Family == "capacity" {
		o.Probe("capacity-family-run")
		for ti := 0; ti < 2 && ti < len(tasks); ti++ {
			x := tasks[ti][0]
			x.kind, x.pool, x.ctx, x.own = "exec", ti, world.NodeRef{}, false
			x.desc = fmt.Sprintf("Exec(%s, e%d)", w.PathOf(x.ctx), x.pool)
		}
	}
	mkReq := func(x *op) world.ExecReq {
		return world.ExecReq{Expr: pool[x.pool].Str, Ctx: x.ctx, Bindings: bind, Pool: poolSpecs}
	}
	umOpts := func() []xsel.ContextApply {
		return []xsel.ContextApply{xsel.WithNS("p", "urn:a"), xsel.WithNS("q", "urn:b"), xsel.WithVariable("s", xsel.String("sv")), xsel.WithVariable("n", xsel.Number(2))}
	}
	for _, script := range tasks {
		for _, x := range script {
			iso, ierr := world.NewWorld(specs)
			if ierr != nil {
				o.HarnessDoubt("isolated world: %v", ierr)
				return
			}
			switch x.kind {
			case "exec":
				x.want = world.Eval(iso, mkReq(x), nil)
			case "unmarshal":
				x.wantS, x.wantF, _ = world.DoUnmarshal(iso.FromValue(bind.Vars["v"]), x.target, umOpts()...)
			case "string":
				x.wantS = xsel.GetCursorString(iso.Cursor(x.ctx))
			case "build":
				if g, berr := xsel.BuildExpr(pool[x.pool].Str); berr != nil {
					x.wantF = true
				} else {
					x.wantS = world.DumpGrammar(&g)
				}
			case "parse":
				if d, perr := world.ParseDoc(x.parse); perr != nil {
					x.wantF = true
				} else {
					x.wantS = d.Base
				}
			}
			o.Evals++
		}
	}

	hooks := &world.Hooks{
		Grammar: func(expr string) (*xsel.Grammar, error) {
			for _, p := range pool {
				if p.Str == expr {
					return p.g, p.err
				}
			}
			return nil, fmt.Errorf("not in pool")
		},
		Var: func(name string) (xsel.Result, bool) {
			s, ok := shared[name]
			return s, ok
		},
		FuncValue: func(name string) (xsel.Result, bool) { return shared["v"], true },
	}
	ownHooks := *hooks
	ownHooks.OwnedNS, ownHooks.OwnedVars, ownHooks.OwnedFrozen = ownNS, ownVars, true

	scripts := make([]func(), nt)
	for ti := range tasks {
		script := tasks[ti]
		scripts[ti] = func() {
			for _, x := range script {
				func() {
					defer func() {
						if r := recover(); r != nil {
							x.gotP = fmt.Sprint(r)
						}
						x.done = true
					}()
					switch x.kind {
					case "exec":
						h := hooks
						if x.own {
							h = &ownHooks
						}
						x.got = world.Eval(w, mkReq(x), h)
					case "unmarshal":
						x.gotS, x.gotF, x.gotP = world.DoUnmarshal(shared["v"], x.target, umOpts()...)
					case "string":
						x.gotS = xsel.GetCursorString(w.Cursor(x.ctx))
					case "build":
						if g, berr := xsel.BuildExpr(pool[x.pool].Str); berr != nil {
							x.gotF = true
						} else {
							x.gotS = world.DumpGrammar(&g)
						}
					case "parse":
						if d, perr := world.ParseDoc(x.parse); perr != nil {
							x.gotF = true
						} else {
							x.gotS = d.Base
							if len(d.Snap.Problems) > 0 {
								x.gotS += "\nSTRUCTURE: " + d.Snap.Problems[0].Detail
							}
						}
					}
				}()
			}
		}
	}

	// schedule configuration
	cfg := verifhook.LConfig{Strategy: t.Pick(4, 3, 3), MaxSteps: 400000}
	cfg.MeanGap = []int{1, 3, 10, 40, 200}[t.Draw(5)]
	cfg.PCTDepth = 1 + t.Draw(3)
	cfg.EstSteps = []int{200, 2000, 20000}[t.Draw(3)]
	if cfg.Strategy == 2 {
		k := 2 + t.Draw(5)
		for i := 0; i < k; i++ {
			cfg.TargetSites = append(cfg.TargetSites, t.Draw(len(verifhook.Sites)))
		}
		// always include the union / sort / unique sites when present
		for i, s := range verifhook.Sites {
			if strings.HasPrefix(s, "exec/contextfn.go:") && t.Bool(1, 6) {
				cfg.TargetSites = append(cfg.TargetSites, i)
			}
			if strings.HasPrefix(s, "exec/axisselectors.go:") && t.Bool(1, 30) {
				cfg.TargetSites = append(cfg.TargetSites, i)
			}
		}
		cfg.TargetTimes = 1 + t.Draw(3)
		cfg.MeanGap = 500
	}
	racesBefore := raceErrors()
	verifhook.Choose = t.Draw
	res := verifhook.RunL(scripts, cfg)
	verifhook.Choose = nil
	o.Steps += res.Steps
	o.Evals += nt

	// O1: every concurrent operation returns its serial (isolated) result
	for ti, script := range tasks {
		for k, x := range script {
			line := fmt.Sprintf("T%d.%d %s", ti, k, x.desc)
			if !x.done {
				o.Violate(P, "task-did-not-finish", "task-did-not-finish", "%s did not finish", line)
				continue
			}
			if x.gotP != "" {
				o.Violate(P, "panic", "panic:"+x.kind, "%s panicked under the schedule: %s", line, x.gotP)
				continue
			}
			switch x.kind {
			case "exec":
				if x.got.Panic && strings.HasPrefix(x.got.Text, "PANIC ESCAPED") {
					o.Violate(P, "panic", "panic:Exec", "%s: %s", line, x.got.Text)
				} else if x.got.Key(w) != x.want.Key(w) {
					o.Violate(P, "O1-concurrent-result-differs", "concurrent-result-differs", "%s returned %s under the schedule but %s serially (isolated world)\n%s", line, x.got.Show(w), x.want.Show(w), strings.Join(log, "\n"))
				}
				log = append(log, line+" -> "+x.got.Show(w))
			default:
				if x.gotS != x.wantS || x.gotF != x.wantF {
					o.Violate(P, "O1-concurrent-result-differs", "concurrent-result-differs:"+x.kind, "%s gave %q (fail=%v) under the schedule but %q (fail=%v) serially", line, trunc(x.gotS), x.gotF, trunc(x.wantS), x.wantF)
				}
				log = append(log, line)
			}
		}
	}
	// O2: the shared world is unchanged after the join
	if d := w.Changed(); d != "" {
		o.Violate(P, "O2-shared-world-changed", "document-changed", "after the join: %s\n%s", d, strings.Join(log, "\n"))
	}
	for name, orig := range sharedOrig {
		cur := shared[name]
		for i := range orig {
			if cur[i] != orig[i] {
				o.Violate(P, "O2-shared-world-changed", "shared-slice-mutated", "after the join: shared node-set $%s changed at index %d\n%s", name, i, strings.Join(log, "\n"))
				break
			}
		}
	}
	for i, p := range pool {
		if p.g != nil {
			if d := world.DumpGrammar(p.g); d != p.dump {
				o.Violate(P, "O2-shared-world-changed", "compiled-expression-changed", "after the join: compiled expression e%d changed: %s", i, model.FirstDiff(p.dump, d))
			}
		}
	}
	if d := world.MapsDiffer(ownNSBefore, ownNS, ownVarsBefore, ownVars); d != "" {
		o.Violate(P, "O2-shared-world-changed", "binding-maps-changed", "after the join: %s", d)
	}
	// O3: the race detector saw nothing (race build only)
	if RaceBuild {
		if n := raceErrors(); n > racesBefore {
			all := raceLogTail()
			report := all
			if len(all) >= raceLogSeen {
				report = all[raceLogSeen:]
			}
			raceLogSeen = len(all)
			if raceInCodeUnderTest(report) || report == "" {
				o.Violate(P, "O3-data-race", "data-race", "the race detector reported %d data race(s) during this run\n%s\n%s", n-racesBefore, truncN(report, 900), strings.Join(log, "\n"))
			} else {
				o.HarnessDoubt("race report without a frame in the code under test:\n%s", truncN(report, 1500))
			}
		}
		o.Probe("race-build-run")
	}
	if res.Aborted {
		o.Probe("step-budget-reached-run-completed-serially")
	}
	if res.Stalls > 0 {
		// the code under test blocks in real primitives: schedules are no longer
		// fully owned by the tape (documented limit), results are still judged
		o.Probe("turn-taken-over-from-blocked-holder")
		o.TimingDependent = true
	}
	if res.Interleaved {
		o.Probe("tasks-interleaved")
	}
	o.ProbeN("context-switches", res.Switches)
	o.FaultN("forced-switch-at-targeted-site", res.Forced)
	o.Fault(fmt.Sprintf("strategy-%d", cfg.Strategy))
	o.NonTrivial = res.Interleaved
	tr := make([]string, 0, len(res.Trace))
	for _, x := range res.Trace {
		tr = append(tr, fmt.Sprint(x))
	}
	o.Fingerprint = simkit.Hash64(strings.Join(log, "\n"), strings.Join(tr, ","))
	if full {
		docs := []string{}
		for _, d := range specs {
			docs = append(docs, d.Kind+": "+string(d.Bytes))
		}
		sw := []string{}
		for i, x := range res.Trace {
			if i >= 40 {
				sw = append(sw, fmt.Sprintf("… (%d switches)", len(res.Trace)))
				break
			}
			site := int(x & 0xfffff)
			name := "exit"
			if site < len(verifhook.Sites) {
				name = verifhook.Sites[site]
			}
			sw = append(sw, fmt.Sprintf("->T%d@%s", x>>20, name))
		}
		o.Scenario = map[string]any{"docs": docs, "setup_and_results": log, "strategy": cfg.Strategy, "mean_gap": cfg.MeanGap, "steps": res.Steps, "switches": sw, "per_task_steps": res.PerTask}
	}
}

// raceInCodeUnderTest: at least one report in which one of the two access
// stacks has its first non-library frame in /repo code (the other side may be
// the harness reading a result that aliases shared memory). Reports whose both
// stacks lie in the scheduler runtime or the harness are harness doubts.
func raceInCodeUnderTest(report string) bool {
	for _, rep := range strings.Split(report, "WARNING: DATA RACE") {
		stacks := 0
		inRepo := 0
		lines := strings.Split(rep, "\n")
		for i := 0; i < len(lines); i++ {
			l := strings.TrimSpace(lines[i])
			if strings.HasPrefix(l, "Write at") || strings.HasPrefix(l, "Read at") || strings.HasPrefix(l, "Previous write at") || strings.HasPrefix(l, "Previous read at") {
				stacks++
				for j := i + 1; j < len(lines); j++ {
					f := strings.TrimSpace(lines[j])
					if f == "" {
						break
					}
					if strings.HasPrefix(f, "/") || strings.HasPrefix(f, "runtime.") || strings.HasPrefix(f, "sort.") || strings.HasPrefix(f, "strings.") || strings.HasPrefix(f, "reflect.") || strings.HasPrefix(f, "internal/") || strings.HasPrefix(f, "slices.") || strings.HasPrefix(f, "fmt.") || strings.HasPrefix(f, "bytes.") {
						continue
					}
					if strings.HasPrefix(f, "github.com/ChrisTrenkamp/xsel") && !strings.Contains(f, "/verifhook.") {
						inRepo++
					}
					break
				}
			}
		}
		if stacks >= 2 && inRepo >= 1 {
			return true
		}
	}
	return false
}

func trunc(s string) string { return truncN(s, 200) }

func truncN(s string, n int) string {
	if len(s) > n {
		return s[:n] + "…"
	}
	return s
}

//go:build verif && race

package schedlib

import "runtime"

const RaceBuild = true

func raceErrors() int { return runtime.RaceErrors() }

// Package world builds the shared "world" of the history (C13), scheduler
// (C14) and hostile (C15) engines: documents, compiled expressions, bindings
// and the caller's held node-sets, plus the isolated-world evaluation that
// serves as the history- and schedule-independent reference.
package world

import (
	"bytes"
	"fmt"
	"math"
	"sort"
	"strings"

	"github.com/ChrisTrenkamp/xsel"

	"verif/model"
	"verif/simkit"
)

type DocSpec struct {
	Kind   string // xml, json, html
	Bytes  []byte
	Family string // "" or "capacity" (see capacityDoc)
}

type Doc struct {
	Spec   DocSpec
	Cursor xsel.Cursor
	Snap   *model.Snapshot
	Base   string // ordered rendering at creation time
	index  map[xsel.Cursor]int
}

// NodeRef identifies a node independently of any particular parse.
type NodeRef struct{ Doc, Idx int }

func ParseDoc(spec DocSpec) (*Doc, error) {
	var c xsel.Cursor
	var err error
	switch spec.Kind {
	case "xml":
		c, err = xsel.ReadXml(bytes.NewReader(spec.Bytes))
	case "json":
		c, err = xsel.ReadJson(bytes.NewReader(spec.Bytes))
	case "html":
		c, err = xsel.ReadHtml(bytes.NewReader(spec.Bytes))
	default:
		return nil, fmt.Errorf("unknown kind %s", spec.Kind)
	}
	if err != nil {
		return nil, err
	}
	d := &Doc{Spec: spec, Cursor: c}
	d.Snap = model.Snap(c)
	d.Base = d.Snap.Tree.Render(true, true)
	d.index = make(map[xsel.Cursor]int, len(d.Snap.Cursors))
	for i, x := range d.Snap.Cursors {
		d.index[x] = i
	}
	return d, nil
}

// capacityDoc: sibling elements whose attribute / child lists have spare
// capacity in the store (3, 5, 6, 7 entries) followed by siblings with one
// entry: if the evaluator appends to a slice handed out by the Cursor API, the
// appended cursors land in the tree's own backing array.
func capacityDoc(t *simkit.Tape) DocSpec {
	var b strings.Builder
	b.WriteString("<r>")
	n := 2 + t.Draw(3)
	for i := 0; i < n; i++ {
		name := []string{"a", "b", "c", "item"}[t.Draw(4)]
		k := []int{3, 5, 6, 7, 1, 1, 2}[t.Draw(7)]
		if i > 0 && t.Bool(2, 3) {
			k = 1
		}
		fmt.Fprintf(&b, "<%s", name)
		for j := 0; j < k; j++ {
			fmt.Fprintf(&b, " %s%d=\"%d\"", []string{"id", "a", "b"}[t.Draw(3)], j, i*10+j)
		}
		kids := []int{0, 0, 1, 3, 5}[t.Draw(5)]
		if kids == 0 {
			b.WriteString("/>")
			continue
		}
		b.WriteString(">")
		for j := 0; j < kids; j++ {
			cn := []string{"a", "b", "c"}[t.Draw(3)]
			fmt.Fprintf(&b, "<%s>%d</%s>", cn, j, cn)
		}
		fmt.Fprintf(&b, "</%s>", name)
	}
	b.WriteString("</r>")
	return DocSpec{Kind: "xml", Bytes: []byte(b.String()), Family: "capacity"}
}

// CapacityExprs select, from the siblings of a capacity document, context
// node-sets whose first node has spare capacity in its lists.
var CapacityExprs = []string{"/*/*/@*", "/*/*[position() < 3]/@*", "/*/*[position() != 2]/@*", "/*/*[position() != 3]/@*", "/*/*[1]/@* | /*/*[2]/@*", "/*/*[@*]/@*", "/*/*/node()", "/*/*[position() < 3]/*", "/*/*[position() != 2]/node()"}

// GenParseSpec draws a document for a parse operation that runs next to other
// parse operations: mostly XML whose text nodes are made of several pieces
// (text next to CDATA sections and references), so that the reader's
// multi-step paths are inside their loops when another task arrives.
func GenParseSpec(t *simkit.Tape) DocSpec {
	if t.Bool(1, 4) {
		return GenDocSpec(t)
	}
	cfg := model.DrawXMLConfig(t)
	cfg.Encoding = ""
	cfg.Entities = false
	cfg.CDATA = true
	cfg.Refs = true
	if cfg.MaxNodes < 20 {
		cfg.MaxNodes = 20
	}
	if cfg.MaxDepth < 3 {
		cfg.MaxDepth = 3
	}
	doc := model.GenXML(t, cfg)
	return DocSpec{Kind: "xml", Bytes: model.SerialiseXML(t, cfg, doc).Bytes}
}

// GenDocSpec draws a document of one of the three kinds.
func GenDocSpec(t *simkit.Tape) DocSpec {
	if t.Bool(1, 7) {
		return capacityDoc(t)
	}
	switch t.Pick(5, 1, 1) {
	case 1:
		cfg := model.DrawJSONConfig(t)
		cfg.TopLevel = 1
		return DocSpec{Kind: "json", Bytes: model.SerialiseJSON(t, cfg, model.GenJSON(t, cfg))}
	case 2:
		cfg := model.DrawHTMLConfig(t)
		cfg.Doctype = 0
		cfg.Soup = false
		cfg.Huge = 0 // reverse-axis queries are quadratic in the number of siblings: 20000 siblings mean gigabytes
		return DocSpec{Kind: "html", Bytes: model.GenHTML(t, cfg)}
	}
	cfg := model.DrawXMLConfig(t)
	cfg.Encoding = ""
	cfg.Entities = false
	if t.Bool(1, 3) {
		cfg.LangBias = true
	}
	if cfg.MaxNodes < 8 {
		cfg.MaxNodes = 8
	}
	if cfg.MaxDepth < 3 {
		cfg.MaxDepth = 3
	}
	doc := model.GenXML(t, cfg)
	return DocSpec{Kind: "xml", Bytes: model.SerialiseXML(t, cfg, doc).Bytes}
}

// Value is a world-independent description of an XPath value.
type Value struct {
	Type  string // number, string, bool, nodeset
	Num   float64
	Str   string
	Bool  bool
	Nodes []NodeRef
}

func (v Value) String() string {
	switch v.Type {
	case "number":
		return fmt.Sprintf("number(%v)", v.Num)
	case "string":
		return fmt.Sprintf("string(%q)", v.Str)
	case "bool":
		return fmt.Sprintf("bool(%v)", v.Bool)
	}
	return fmt.Sprintf("nodeset%v", v.Nodes)
}

// World is one instantiation of the documents.
type World struct {
	Docs []*Doc
}

func NewWorld(specs []DocSpec) (*World, error) {
	w := &World{}
	for _, s := range specs {
		d, err := ParseDoc(s)
		if err != nil {
			return nil, err
		}
		w.Docs = append(w.Docs, d)
	}
	return w, nil
}

func (w *World) Cursor(r NodeRef) xsel.Cursor { return w.Docs[r.Doc].Snap.Cursors[r.Idx] }

// RefOf finds the world-independent name of a cursor; ok=false if the cursor
// does not belong to this world's documents (a foreign or fabricated node).
func (w *World) RefOf(c xsel.Cursor) (NodeRef, bool) {
	for di, d := range w.Docs {
		if i, ok := d.index[c]; ok {
			return NodeRef{di, i}, true
		}
	}
	return NodeRef{}, false
}

func (w *World) PathOf(r NodeRef) string {
	d := w.Docs[r.Doc]
	return fmt.Sprintf("d%d:%s#%s", r.Doc, d.Snap.Paths[r.Idx], model.KindOf(d.Snap.Cursors[r.Idx].Node()))
}

// Changed reports the first document whose public face differs from its
// rendering at creation.
func (w *World) Changed() string {
	for i, d := range w.Docs {
		s := model.Snap(d.Cursor)
		for _, p := range s.Problems {
			return fmt.Sprintf("document %d: %s", i, p.Detail)
		}
		if now := s.Tree.Render(true, true); now != d.Base {
			return fmt.Sprintf("document %d: %s", i, model.FirstDiff(d.Base, now))
		}
		if len(s.Cursors) != len(d.Snap.Cursors) {
			return fmt.Sprintf("document %d: number of cursors changed", i)
		}
		for k := range s.Cursors {
			if s.Cursors[k] != d.Snap.Cursors[k] {
				return fmt.Sprintf("document %d: cursor identity at %s changed", i, s.Paths[k])
			}
			if s.Cursors[k].Pos() != d.Snap.Cursors[k].Pos() {
				return fmt.Sprintf("document %d: Pos() at %s changed", i, s.Paths[k])
			}
		}
	}
	return ""
}

// ToValue converts a result to its world-independent description. Node-set
// order is kept (it is part of what the caller observes).
func (w *World) ToValue(r xsel.Result) (Value, error) {
	switch v := r.(type) {
	case xsel.Number:
		return Value{Type: "number", Num: float64(v)}, nil
	case xsel.String:
		return Value{Type: "string", Str: string(v)}, nil
	case xsel.Bool:
		return Value{Type: "bool", Bool: bool(v)}, nil
	case xsel.NodeSet:
		out := Value{Type: "nodeset"}
		for _, c := range v {
			ref, ok := w.RefOf(c)
			if !ok {
				return out, fmt.Errorf("node-set contains a cursor that is not a node of the queried documents")
			}
			out.Nodes = append(out.Nodes, ref)
		}
		return out, nil
	case nil:
		return Value{}, fmt.Errorf("nil result")
	}
	return Value{}, fmt.Errorf("unknown result type %T", r)
}

// FromValue instantiates a value in this world.
func (w *World) FromValue(v Value) xsel.Result {
	switch v.Type {
	case "number":
		return xsel.Number(v.Num)
	case "string":
		return xsel.String(v.Str)
	case "bool":
		return xsel.Bool(v.Bool)
	}
	ns := make(xsel.NodeSet, 0, len(v.Nodes))
	for _, r := range v.Nodes {
		ns = append(ns, w.Cursor(r))
	}
	return ns
}

// Outcome of one evaluation in normalised form.
type Norm struct {
	Err   bool
	Panic bool // "xpath query panic" inside the error text
	Val   Value
	// Rendered is Result.String() of a number, boolean or string result: what a
	// caller who prints the result sees (compared like the value itself).
	Rendered string
	Text     string // error text (never compared)
	// Mutated is non-empty when the caller-owned binding maps differ after the
	// query from what the caller put into them.
	Mutated string
}

func (n Norm) Key(w *World) string {
	if n.Err {
		return "error"
	}
	switch n.Val.Type {
	case "number":
		return fmt.Sprintf("number:%016x:%s", math.Float64bits(n.Val.Num), n.Rendered)
	case "string":
		return "string:" + n.Val.Str + "\x00" + n.Rendered
	case "bool":
		return fmt.Sprintf("bool:%v:%s", n.Val.Bool, n.Rendered)
	}
	var b strings.Builder
	b.WriteString("nodeset:")
	for _, r := range n.Val.Nodes {
		fmt.Fprintf(&b, "%d.%d,", r.Doc, r.Idx)
	}
	return b.String()
}

func (n Norm) Show(w *World) string {
	if n.Err {
		// error texts are never rendered: BuildExpr formats them by ranging over maps
		if strings.HasPrefix(n.Text, "build:") {
			return "error(build)"
		}
		if n.Panic {
			return "error(xpath query panic)"
		}
		return "error"
	}
	if n.Val.Type != "nodeset" {
		vs := n.Val.String()
		if n.Val.Type == "number" && math.IsNaN(n.Val.Num) {
			vs = "number(NaN)"
		}
		if n.Val.Type == "number" || n.Val.Type == "bool" {
			return vs + fmt.Sprintf(" printed as %q", n.Rendered)
		}
		if n.Rendered != n.Val.Str {
			return vs + fmt.Sprintf(" printed as %q", n.Rendered)
		}
		return vs
	}
	parts := []string{}
	for _, r := range n.Val.Nodes {
		parts = append(parts, w.PathOf(r))
	}
	return "nodeset[" + strings.Join(parts, " ") + "]"
}

// Names collects the vocabulary of the documents for the expression generator.
func (w *World) Names() (elems, attrs, pis []string) {
	es, as, ps := map[string]bool{}, map[string]bool{}, map[string]bool{}
	var walk func(n *model.Node)
	walk = func(n *model.Node) {
		switch n.Kind {
		case model.KElem:
			if okName(n.Local) {
				es[n.Local] = true
			}
			for _, a := range n.Attrs {
				if okName(a.Local) {
					as[a.Local] = true
				}
			}
		case model.KPI:
			ps[n.Target] = true
		}
		for _, c := range n.Children {
			walk(c)
		}
	}
	for _, d := range w.Docs {
		walk(d.Snap.Tree)
	}
	return keys(es), keys(as), keys(ps)
}

func okName(s string) bool {
	if s == "" {
		return false
	}
	for i, r := range s {
		if r == '#' && i == 0 {
			continue
		}
		if !(r >= 'a' && r <= 'z' || r >= 'A' && r <= 'Z' || r == '_' || r > 0x7f || (i > 0 && (r >= '0' && r <= '9' || r == '-' || r == '.'))) {
			return false
		}
	}
	switch s {
	case "and", "or", "div", "mod":
		return false
	}
	return true
}

func keys(m map[string]bool) []string {
	out := make([]string, 0, len(m))
	for k := range m {
		out = append(out, k)
	}
	sort.Strings(out)
	if len(out) > 12 {
		out = out[:12]
	}
	return out
}

package world

import (
	"encoding/json"
	"fmt"
	"reflect"
	"strings"

	"github.com/ChrisTrenkamp/xsel"

	"verif/model"
)

// PoolExpr is an expression string with its static type.
type PoolExpr struct {
	Str  string
	Type model.XType
}

// FuncSpec describes a user function independently of any world.
type FuncSpec struct {
	Name  string
	Kind  string // const, echo, held, reenter, fail, panic, nilnil
	Const Value
	At    int // invocation (0-based, per top-level operation) at which reenter/fail/panic acts; -1: always
	Expr  int // pool index for reenter
	Arity int
	Ret   model.XType
}

func (f FuncSpec) String() string {
	switch f.Kind {
	case "const", "held":
		return fmt.Sprintf("%s()=%s:%s", f.Name, f.Kind, f.Const)
	case "reenter":
		return fmt.Sprintf("%s(..): at call %d re-enters Exec(pool[%d]) on the same tree", f.Name, f.At, f.Expr)
	}
	return fmt.Sprintf("%s(..): %s at call %d", f.Name, f.Kind, f.At)
}

// Bindings is a world-independent binding environment.
type Bindings struct {
	NS    map[string]string
	Vars  map[string]Value
	Funcs []FuncSpec
}

// ExecReq is one query, independent of any world.
type ExecReq struct {
	Expr     string
	Ctx      NodeRef
	Bindings *Bindings
	Pool     []PoolExpr // for re-entrant callbacks
}

// Hooks let the shared-world caller substitute its own (aliased, long-lived)
// objects for what the isolated world creates freshly.
type Hooks struct {
	// Grammar returns the compiled expression to use (shared pool object).
	Grammar func(expr string) (*xsel.Grammar, error)
	// Var returns the caller's own value object for a node-set variable.
	Var func(name string) (xsel.Result, bool)
	// OwnedMaps, when non-nil, are installed by a ContextApply instead of
	// being passed through With... options.
	OwnedNS   map[string]string
	OwnedVars map[xsel.XmlName]xsel.Result
	// OwnedFrozen: the owned maps were filled before the run and are only
	// read (shared between concurrent tasks).
	OwnedFrozen bool
	// FuncValue returns the caller-held object a "held" callback hands out.
	FuncValue func(name string) (xsel.Result, bool)
	// Reentered is called when a callback re-enters Exec.
	Reentered func(sameExpr bool)
	// CallbackFault is called when a callback returns an error or panics.
	CallbackFault func(kind string)
}

// Eval executes the request in world w. With nil hooks everything is created
// freshly (isolated evaluation).
func Eval(w *World, req ExecReq, h *Hooks) (n Norm) {
	return evalDepth(w, req, h, 0, req.Expr)
}

type cbPanic struct{ msg string }

func evalDepth(w *World, req ExecReq, h *Hooks, depth int, outerExpr string) (n Norm) {
	defer func() {
		if r := recover(); r != nil {
			n = Norm{Err: true, Panic: true, Text: fmt.Sprintf("PANIC ESCAPED Exec: %v", r)}
		}
	}()
	var g *xsel.Grammar
	var err error
	if h != nil && h.Grammar != nil {
		g, err = h.Grammar(req.Expr)
	} else {
		var gg xsel.Grammar
		gg, err = xsel.BuildExpr(req.Expr)
		g = &gg
	}
	if err != nil {
		return Norm{Err: true, Text: "build: " + firstLine(err.Error())}
	}
	b := req.Bindings
	vars := map[xsel.XmlName]xsel.Result{}
	for name, v := range b.Vars {
		var val xsel.Result
		if h != nil && h.Var != nil {
			if own, ok := h.Var(name); ok {
				val = own
			}
		}
		if val == nil {
			val = w.FromValue(v)
		}
		vars[xsel.XmlName{Local: name}] = val
	}
	calls := map[string]int{}
	funcs := map[xsel.XmlName]xsel.Function{}
	for _, fs := range b.Funcs {
		fs := fs
		funcs[xsel.XmlName{Local: fs.Name}] = func(ctx xsel.Context, args ...xsel.Result) (xsel.Result, error) {
			k := calls[fs.Name]
			calls[fs.Name]++
			acts := fs.At < 0 || fs.At == k
			switch fs.Kind {
			case "held":
				if h != nil && h.FuncValue != nil {
					if own, ok := h.FuncValue(fs.Name); ok {
						return own, nil
					}
				}
				return w.FromValue(fs.Const), nil
			case "const":
				return w.FromValue(fs.Const), nil
			case "echo":
				if len(args) > 0 {
					return args[0], nil
				}
				return ctx.Result(), nil
			case "fail":
				if acts {
					if h != nil && h.CallbackFault != nil {
						h.CallbackFault("callback-error")
					}
					return nil, fmt.Errorf("injected callback failure")
				}
				return w.FromValue(fs.Const), nil
			case "panic":
				if acts {
					if h != nil && h.CallbackFault != nil {
						h.CallbackFault("callback-panic")
					}
					panic(cbPanic{"injected callback panic"})
				}
				return w.FromValue(fs.Const), nil
			case "nilnil":
				if acts {
					if h != nil && h.CallbackFault != nil {
						h.CallbackFault("callback-nil-nil")
					}
					return nil, nil
				}
				return w.FromValue(fs.Const), nil
			case "reenter":
				if !acts || depth > 0 || fs.Expr >= len(req.Pool) {
					return w.FromValue(fs.Const), nil
				}
				ctxRef := req.Ctx
				if ns, ok := ctx.Result().(xsel.NodeSet); ok && len(ns) > 0 {
					if r, ok := w.RefOf(ns[0]); ok {
						ctxRef = r
					}
				}
				inner := req
				inner.Expr = req.Pool[fs.Expr].Str
				inner.Ctx = ctxRef
				if h != nil && h.Reentered != nil {
					h.Reentered(inner.Expr == outerExpr)
				}
				res := evalDepth(w, inner, h, depth+1, outerExpr)
				if res.Err {
					return nil, fmt.Errorf("nested query failed")
				}
				return w.FromValue(res.Val), nil
			}
			return w.FromValue(fs.Const), nil
		}
	}
	var res xsel.Result
	if h != nil && h.OwnedNS != nil {
		// the caller installs its own long-lived maps, like the CLI does
		if !h.OwnedFrozen {
			for k := range h.OwnedVars {
				delete(h.OwnedVars, k)
			}
			for k, v := range vars {
				h.OwnedVars[k] = v
			}
		}
		nsBefore := map[string]string{}
		for k, v := range h.OwnedNS {
			nsBefore[k] = v
		}
		res, err = xsel.Exec(w.Cursor(req.Ctx), g, func(c *xsel.ContextSettings) {
			c.NamespaceDecls = h.OwnedNS
			c.Variables = h.OwnedVars
			c.FunctionLibrary = funcs
		})
		if h.OwnedFrozen {
			// checked by the caller after the join
		} else if d := MapsDiffer(nsBefore, h.OwnedNS, vars, h.OwnedVars); d != "" {
			defer func() { n.Mutated = d }()
		}
	} else {
		opts := []xsel.ContextApply{}
		for _, k := range sortedKeys(b.NS) {
			opts = append(opts, xsel.WithNS(k, b.NS[k]))
		}
		// deterministic option order: the With... closures are yield-instrumented
		vnames := map[string]string{}
		for name := range vars {
			vnames[name.Local] = ""
		}
		for _, k := range sortedKeys(vnames) {
			name := xsel.XmlName{Local: k}
			opts = append(opts, xsel.WithVariableName(name, vars[name]))
		}
		fnames := map[string]string{}
		for name := range funcs {
			fnames[name.Local] = ""
		}
		for _, k := range sortedKeys(fnames) {
			name := xsel.XmlName{Local: k}
			opts = append(opts, xsel.WithFunctionName(name, funcs[name]))
		}
		res, err = xsel.Exec(w.Cursor(req.Ctx), g, opts...)
	}
	if err != nil {
		return Norm{Err: true, Panic: strings.Contains(err.Error(), "xpath query panic"), Text: firstLine(err.Error())}
	}
	if res == nil {
		return Norm{Err: true, Panic: true, Text: "NIL RESULT WITH NIL ERROR"}
	}
	v, verr := w.ToValue(res)
	if verr != nil {
		return Norm{Err: true, Panic: true, Text: "FOREIGN NODE: " + verr.Error()}
	}
	n = Norm{Val: v}
	if v.Type != "nodeset" {
		n.Rendered = res.String()
	}
	return n
}

func MapsDiffer(nsBefore, nsAfter map[string]string, varsBefore, varsAfter map[xsel.XmlName]xsel.Result) string {
	if len(nsBefore) != len(nsAfter) {
		return "namespace map changed size"
	}
	for k, v := range nsBefore {
		if nv, ok := nsAfter[k]; !ok || nv != v {
			return "namespace map entry " + k + " changed"
		}
	}
	if len(varsBefore) != len(varsAfter) {
		return "variable map changed size"
	}
	for k, v := range varsBefore {
		nv, ok := varsAfter[k]
		if !ok {
			return "variable " + k.Local + " removed"
		}
		a, aok := v.(xsel.NodeSet)
		b, bok := nv.(xsel.NodeSet)
		if aok != bok {
			return "variable " + k.Local + " changed type"
		}
		if aok {
			if len(a) != len(b) {
				return "variable " + k.Local + " changed length"
			}
			for i := range a {
				if a[i] != b[i] {
					return "variable " + k.Local + " changed contents"
				}
			}
		} else if v != nv {
			return "variable " + k.Local + " changed value"
		}
	}
	return ""
}

func firstLine(s string) string {
	if i := strings.IndexByte(s, '\n'); i >= 0 {
		s = s[:i]
	}
	if len(s) > 200 {
		s = s[:200]
	}
	return s
}

func sortedKeys(m map[string]string) []string {
	ks := make([]string, 0, len(m))
	for k := range m {
		ks = append(ks, k)
	}
	for i := 1; i < len(ks); i++ {
		for j := i; j > 0 && ks[j] < ks[j-1]; j-- {
			ks[j], ks[j-1] = ks[j-1], ks[j]
		}
	}
	return ks
}

// DumpGrammar renders the public face of a compiled expression: the BSR tree
// reachable through exported methods and the source text of every node.
func DumpGrammar(g *xsel.Grammar) (s string) {
	defer func() {
		if r := recover(); r != nil {
			s = fmt.Sprintf("PANIC while dumping: %v", r)
		}
	}()
	var b strings.Builder
	var rec func(x *xsel.Grammar, depth int)
	rec = func(x *xsel.Grammar, depth int) {
		if depth > 200 {
			return
		}
		fmt.Fprintf(&b, "%*s%s %q\n", depth, "", x.BSR.String(), x.GetString())
		for _, alt := range x.BSR.GetAllNTChildren() {
			for i := range alt {
				c := alt[i]
				rec(x.Next(&c), depth+1)
			}
		}
	}
	rec(g, 0)
	return b.String()
}

// ---- Unmarshal targets ----

type T0 struct {
	Name string `xsel:"local-name()"`
	Kids int    `xsel:"count(node())"`
	keep int
}

type T1 struct {
	S    string   `xsel:"."`
	N    float64  `xsel:"count(*)"`
	L    []string `xsel:"*"`
	B    bool     `xsel:"@*"`
	P    *string  `xsel:"name()"`
	I    int      `xsel:"string-length()"`
	U8   uint8    `xsel:"count(ancestor::*)"`
	Sub  []T0     `xsel:"*"`
	PSub []*T0    `xsel:"*[1]"`
	Keep string
}

type TBadTag struct {
	A string `xsel:"name()"`
	B string `xsel:"]["`
	C string `xsel:"."`
}

type TVar struct {
	A string  `xsel:"$s"`
	N float64 `xsel:"$n + 1"`
	F string  `xsel:"p:*"`
}

// UnmarshalTargets lists the target constructors.
var UnmarshalTargets = []struct {
	Name string
	New  func() any
}{
	{"*T1", func() any { return &T1{Keep: "k"} }},
	{"*[]string", func() any { return &[]string{} }},
	{"*[]T0", func() any { return &[]T0{} }},
	{"*[]*T0", func() any { return &[]*T0{} }},
	{"*[]int", func() any { return &[]int{} }},
	{"*[]float32", func() any { return &[]float32{} }},
	{"*TBadTag", func() any { return &TBadTag{} }},
	{"*TVar", func() any { return &TVar{} }},
	{"**T0", func() any { p := &T0{}; return &p }},
	{"*[]bool", func() any { return &[]bool{} }},
	// struct types without a name (and two different ones): caches keyed by type name collide
	{"*struct{A,B,C}", func() any {
		return &struct {
			A string `xsel:"name()"`
			B string `xsel:"."`
			C int    `xsel:"count(*)"`
		}{}
	}},
	{"*struct{A}", func() any {
		return &struct {
			A float64 `xsel:"count(node())"`
		}{}
	}},
	{"*[]struct{X}", func() any {
		return &[]struct {
			X string `xsel:"local-name()"`
		}{}
	}},
}

// FieldCheck compares, for a struct target that Unmarshal filled from a
// one-node node-set, every string / float64 / bool field with the result of
// its own tag query evaluated directly. It is independent of anything
// Unmarshal may have cached in the process. Returns a description of the first
// difference or "".
func FieldCheck(res xsel.Result, target any, opts ...xsel.ContextApply) string {
	ns, ok := res.(xsel.NodeSet)
	if !ok || len(ns) != 1 {
		return ""
	}
	v := reflect.ValueOf(target)
	for v.Kind() == reflect.Pointer && !v.IsNil() {
		v = v.Elem()
	}
	if v.Kind() != reflect.Struct {
		return ""
	}
	for i := 0; i < v.NumField(); i++ {
		f := v.Type().Field(i)
		tag := f.Tag.Get("xsel")
		if tag == "" || !f.IsExported() {
			continue
		}
		g, err := xsel.BuildExpr(tag)
		if err != nil {
			continue
		}
		r, err := xsel.Exec(ns[0], &g, opts...)
		if err != nil || r == nil {
			continue
		}
		switch f.Type.Kind() {
		case reflect.String:
			if got := v.Field(i).String(); got != r.String() {
				return fmt.Sprintf("field %s (tag %q) holds %q but its query gives %q", f.Name, tag, got, r.String())
			}
		case reflect.Float64:
			got, want := v.Field(i).Float(), r.Number()
			if got != want && !(got != got && want != want) {
				return fmt.Sprintf("field %s (tag %q) holds %v but its query gives %v", f.Name, tag, got, want)
			}
		case reflect.Bool:
			if got := v.Field(i).Bool(); got != r.Bool() {
				return fmt.Sprintf("field %s (tag %q) holds %v but its query gives %v", f.Name, tag, got, r.Bool())
			}
		}
	}
	return ""
}

// DoUnmarshal runs Unmarshal under the monitor and renders the filled target.
func DoUnmarshal(res xsel.Result, target int, opts ...xsel.ContextApply) (out string, failed bool, panicked string) {
	defer func() {
		if r := recover(); r != nil {
			panicked = fmt.Sprint(r)
		}
	}()
	t := UnmarshalTargets[target].New()
	err := xsel.Unmarshal(res, t, opts...)
	if err != nil {
		return "", true, ""
	}
	b, _ := json.Marshal(t)
	out = string(b)
	if d := FieldCheck(res, t, opts...); d != "" {
		out += "\nFIELD-MISMATCH: " + d
	}
	return out, false, ""
}

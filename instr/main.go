// instr inserts scheduler yield points into copies of /repo's current source
// files and writes a `go build -overlay` description. Nothing in /repo is
// touched. Only statements are ADDED between existing statements:
//
//	verifhook.Enter(); defer verifhook.Leave()   at the start of every function body
//	verifhook.Yield(<site>)                      before every statement of every block,
//	                                             case clause and comm clause
//
// Usage: instr -repo /repo -out DIR -hook HOOKDIR [-extra virtual=real ...] pkgdir...
package main

import (
	"encoding/json"
	"flag"
	"fmt"
	"go/ast"
	"go/parser"
	"go/printer"
	"go/token"
	"os"
	"path/filepath"
	"sort"
	"strings"
)

type extraList []string

func (e *extraList) String() string     { return strings.Join(*e, ",") }
func (e *extraList) Set(v string) error { *e = append(*e, v); return nil }

const hookImport = "github.com/ChrisTrenkamp/xsel/verifhook"

type instrumenter struct {
	fset  *token.FileSet
	sites []string
	// syncSite[i]: executing the statement after site i may perform a
	// synchronisation operation (channel operation, go, select, a call of a
	// method named like a sync primitive, close) or leave a function that has
	// deferred calls. Only such steps can release a blocked goroutine.
	syncSite []bool
	inDefer  int
	// syncLoop > 0: inside a loop whose header (condition, post statement, range
	// over something that may be a channel) runs again between body statements
	syncLoop int
	skip  map[*ast.BlockStmt]bool
	rel   string
	skipFunc map[string]bool
}

var syncNames = map[string]bool{"Lock": true, "Unlock": true, "RLock": true, "RUnlock": true, "Wait": true, "Done": true, "Add": true, "Signal": true, "Broadcast": true,
	"Do": true, "Store": true, "Load": true, "Swap": true, "CompareAndSwap": true, "Get": true, "Put": true, "Range": true, "Delete": true, "LoadOrStore": true, "Go": true, "Acquire": true, "Release": true, "TryLock": true, "Close": true, "Kill": true, "Exit": true}

// nodeMaySync: does evaluating this expression / simple statement contain a
// construct through which goroutines synchronise?
func nodeMaySync(n ast.Node) bool {
	if n == nil || n == ast.Node(nil) {
		return false
	}
	found := false
	ast.Inspect(n, func(n ast.Node) bool {
		if found {
			return false
		}
		switch x := n.(type) {
		case *ast.FuncLit:
			return false // its statements carry their own sites
		case *ast.SendStmt, *ast.GoStmt, *ast.SelectStmt, *ast.DeferStmt:
			found = true
		case *ast.UnaryExpr:
			if x.Op == token.ARROW {
				found = true
			}
		case *ast.RangeStmt:
			found = true
		case *ast.CallExpr:
			switch f := x.Fun.(type) {
			case *ast.SelectorExpr:
				if syncNames[f.Sel.Name] {
					found = true
				}
			case *ast.Ident:
				if f.Name == "close" || f.Name == "panic" {
					found = true
				}
			}
		}
		return true
	})
	return found
}

func stmtOrNil(s ast.Stmt) ast.Node {
	if s == nil {
		return nil
	}
	return s
}

func exprOrNil(e ast.Expr) ast.Node {
	if e == nil {
		return nil
	}
	return e
}

// rangeMaySync: ranging over a channel (or an iterator function) synchronises;
// the operand's type decides (see types.go). Without type information a plain
// variable or field may be a channel.
func rangeMaySync(x *ast.RangeStmt) bool {
	if nodeMaySync(x.X) {
		return true
	}
	return theTypes.rangesOverChannel(x.X)
}

var theTypes *typeInfo

// loopHeaderMaySync: the parts of a loop that run again at every iteration.
func loopHeaderMaySync(s ast.Stmt) bool {
	switch x := s.(type) {
	case *ast.ForStmt:
		return nodeMaySync(exprOrNil(x.Cond)) || nodeMaySync(stmtOrNil(x.Post))
	case *ast.RangeStmt:
		return rangeMaySync(x)
	}
	return false
}

// stmtMaySync looks at what the step that starts at this statement's site
// executes before the next site: for compound statements that is the header
// only, the statements of their bodies carry their own sites.
func stmtMaySync(s ast.Stmt) bool {
	switch x := s.(type) {
	case *ast.BlockStmt:
		return false
	case *ast.LabeledStmt:
		return stmtMaySync(x.Stmt)
	case *ast.IfStmt:
		return nodeMaySync(stmtOrNil(x.Init)) || nodeMaySync(exprOrNil(x.Cond))
	case *ast.ForStmt:
		return nodeMaySync(stmtOrNil(x.Init)) || nodeMaySync(exprOrNil(x.Cond)) || nodeMaySync(stmtOrNil(x.Post))
	case *ast.RangeStmt:
		return rangeMaySync(x)
	case *ast.SwitchStmt:
		if nodeMaySync(stmtOrNil(x.Init)) || nodeMaySync(exprOrNil(x.Tag)) {
			return true
		}
		for _, c := range x.Body.List {
			if cc, ok := c.(*ast.CaseClause); ok {
				for _, e := range cc.List {
					if nodeMaySync(e) {
						return true
					}
				}
			}
		}
		return false
	case *ast.TypeSwitchStmt:
		return nodeMaySync(stmtOrNil(x.Init)) || nodeMaySync(stmtOrNil(x.Assign))
	case *ast.SelectStmt:
		return true
	}
	return nodeMaySync(s)
}

func (in *instrumenter) site(pos token.Pos) ast.Stmt { return in.siteFor(pos, nil) }

func (in *instrumenter) siteFor(pos token.Pos, stmt ast.Stmt) ast.Stmt {
	p := in.fset.Position(pos)
	id := len(in.sites)
	in.sites = append(in.sites, fmt.Sprintf("%s:%d", in.rel, p.Line))
	in.syncSite = append(in.syncSite, in.inDefer > 0 || in.syncLoop > 0 || (stmt != nil && stmtMaySync(stmt)))
	return &ast.ExprStmt{X: &ast.CallExpr{
		Fun:  &ast.SelectorExpr{X: ast.NewIdent("verifhook"), Sel: ast.NewIdent("Yield")},
		Args: []ast.Expr{&ast.BasicLit{Kind: token.INT, Value: fmt.Sprint(id)}},
	}}
}

func (in *instrumenter) list(stmts []ast.Stmt) []ast.Stmt {
	out := make([]ast.Stmt, 0, 2*len(stmts))
	for _, s := range stmts {
		out = append(out, in.siteFor(s.Pos(), s))
		if _, ok := s.(*ast.GoStmt); ok {
			// announce the goroutine so that the scheduler waits for it to register
			out = append(out, &ast.ExprStmt{X: hookCall("Spawn")})
		}
		out = append(out, s)
	}
	return out
}

func hookCall(name string) *ast.CallExpr {
	return &ast.CallExpr{Fun: &ast.SelectorExpr{X: ast.NewIdent("verifhook"), Sel: ast.NewIdent(name)}}
}

func (in *instrumenter) body(b *ast.BlockStmt) {
	if b == nil {
		return
	}
	pre := []ast.Stmt{&ast.ExprStmt{X: hookCall("Enter")}, &ast.DeferStmt{Call: hookCall("Leave")}}
	b.List = append(pre, b.List...)
}

func (in *instrumenter) file(f *ast.File) {
	// clause lists of switch / type switch / select must not receive statements
	ast.Inspect(f, func(n ast.Node) bool {
		switch x := n.(type) {
		case *ast.SwitchStmt:
			in.skip[x.Body] = true
		case *ast.TypeSwitchStmt:
			in.skip[x.Body] = true
		case *ast.SelectStmt:
			in.skip[x.Body] = true
		}
		return true
	})
	// functions that defer anything: every step inside may end by running the
	// deferred calls (which may synchronise)
	hasDefer := map[*ast.BlockStmt]bool{}
	var markDefer func(body *ast.BlockStmt)
	markDefer = func(body *ast.BlockStmt) {
		if body == nil {
			return
		}
		ast.Inspect(body, func(n ast.Node) bool {
			switch x := n.(type) {
			case *ast.FuncLit:
				markDefer(x.Body)
				return false
			case *ast.DeferStmt:
				hasDefer[body] = true
			}
			return true
		})
	}
	for _, d := range f.Decls {
		if fd, ok := d.(*ast.FuncDecl); ok {
			markDefer(fd.Body)
		}
	}
	var funcs []*ast.BlockStmt
	// stack of visited nodes, so that leaving a function restores the flag of
	// the enclosing one
	type frame struct {
		isFunc   bool
		prev     int
		prevLoop int
		isLoop   bool
	}
	var stack []frame
	ast.Inspect(f, func(n ast.Node) bool {
		if n == nil {
			fr := stack[len(stack)-1]
			stack = stack[:len(stack)-1]
			if fr.isFunc {
				in.inDefer = fr.prev
				in.syncLoop = fr.prevLoop
			}
			if fr.isLoop {
				in.syncLoop--
			}
			return true
		}
		if fd, ok := n.(*ast.FuncDecl); ok && in.skipFunc[fd.Name.Name] {
			return false
		}
		fr := frame{}
		switch x := n.(type) {
		case *ast.ForStmt, *ast.RangeStmt:
			if loopHeaderMaySync(x.(ast.Stmt)) {
				fr.isLoop = true
				in.syncLoop++
			}
		case *ast.FuncDecl:
			fr = frame{isFunc: true, prev: in.inDefer, prevLoop: in.syncLoop}
			in.inDefer = 0
			in.syncLoop = 0
			if x.Body != nil {
				funcs = append(funcs, x.Body)
				if hasDefer[x.Body] {
					in.inDefer = 1
				}
			}
		case *ast.FuncLit:
			fr = frame{isFunc: true, prev: in.inDefer, prevLoop: in.syncLoop}
			in.inDefer = 0
			in.syncLoop = 0
			funcs = append(funcs, x.Body)
			if hasDefer[x.Body] {
				in.inDefer = 1
			}
		case *ast.BlockStmt:
			if !in.skip[x] {
				x.List = in.list(x.List)
			}
		case *ast.CaseClause:
			x.Body = in.list(x.Body)
		case *ast.CommClause:
			x.Body = in.list(x.Body)
		}
		stack = append(stack, fr)
		return true
	})
	for _, b := range funcs {
		in.body(b)
	}
	if len(funcs) == 0 {
		return
	}
	// import
	spec := &ast.ImportSpec{Path: &ast.BasicLit{Kind: token.STRING, Value: fmt.Sprintf("%q", hookImport)}}
	decl := &ast.GenDecl{Tok: token.IMPORT, Specs: []ast.Spec{spec}}
	f.Decls = append([]ast.Decl{decl}, f.Decls...)
	f.Comments = nil
	f.Doc = nil
}

func main() {
	repo := flag.String("repo", "/repo", "")
	out := flag.String("out", "", "output directory")
	hook := flag.String("hook", "", "directory with the verifhook sources")
	var extras extraList
	flag.Var(&extras, "extra", "virtual=real additional overlay entries")
	skipFuncs := flag.String("skipfunc", "", "comma-separated function names that stay un-instrumented (they range over maps: their yield order would not replay)")
	flag.Parse()
	if *out == "" || *hook == "" {
		fmt.Fprintln(os.Stderr, "instr: -out and -hook are required")
		os.Exit(2)
	}
	in := &instrumenter{fset: token.NewFileSet(), skip: map[*ast.BlockStmt]bool{}, skipFunc: map[string]bool{}}
	for _, f := range strings.Split(*skipFuncs, ",") {
		if f != "" {
			in.skipFunc[f] = true
		}
	}
	overlay := map[string]string{}
	{
		seen := map[string]bool{}
		var dirs []string
		for _, arg := range flag.Args() {
			d := arg
			if st, err := os.Stat(filepath.Join(*repo, arg)); err == nil && !st.IsDir() {
				d = filepath.Dir(arg)
			}
			if !seen[d] {
				seen[d] = true
				dirs = append(dirs, d)
			}
		}
		theTypes = loadTypes(in.fset, *repo, dirs)
		for _, n := range theTypes.notes {
			fmt.Println("instr: note:", n)
		}
	}
	for _, arg := range flag.Args() {
		// arg is either a package directory or a single file, relative to repo
		var files []string
		full := filepath.Join(*repo, arg)
		st, err := os.Stat(full)
		if err != nil {
			fmt.Fprintln(os.Stderr, "instr:", err)
			os.Exit(2)
		}
		if st.IsDir() {
			ents, _ := os.ReadDir(full)
			for _, e := range ents {
				if strings.HasSuffix(e.Name(), ".go") && !strings.HasSuffix(e.Name(), "_test.go") {
					files = append(files, filepath.Join(arg, e.Name()))
				}
			}
		} else {
			files = []string{arg}
		}
		sort.Strings(files)
		for _, rel := range files {
			src, err := os.ReadFile(filepath.Join(*repo, rel))
			if err != nil {
				fmt.Fprintln(os.Stderr, "instr:", err)
				os.Exit(2)
			}
			if strings.Contains(string(src), "//go:build") || strings.Contains(string(src), "// +build") || strings.Contains(string(src), "//go:embed") || strings.Contains(string(src), "//go:linkname") {
				fmt.Fprintf(os.Stderr, "instr: %s carries compiler directives; refusing to drop them\n", rel)
				os.Exit(2)
			}
			f, err := theTypes.files[filepath.Join(*repo, rel)], error(nil)
			if f == nil {
				f, err = parser.ParseFile(in.fset, filepath.Join(*repo, rel), src, parser.ParseComments)
			}
			if err != nil {
				fmt.Fprintln(os.Stderr, "instr: parse:", err)
				os.Exit(2)
			}
			in.rel = rel
			before := len(in.sites)
			in.file(f)
			if len(in.sites) == before {
				continue // nothing to schedule in this file; keep the original
			}
			dst := filepath.Join(*out, "src", rel)
			os.MkdirAll(filepath.Dir(dst), 0o755)
			w, err := os.Create(dst)
			if err != nil {
				fmt.Fprintln(os.Stderr, "instr:", err)
				os.Exit(2)
			}
			if err := printer.Fprint(w, token.NewFileSet(), f); err != nil {
				fmt.Fprintln(os.Stderr, "instr: print:", err)
				os.Exit(2)
			}
			w.Close()
			overlay[filepath.Join(*repo, rel)] = dst
		}
	}
	// the scheduler runtime becomes package /repo/verifhook
	ents, _ := os.ReadDir(*hook)
	for _, e := range ents {
		if (strings.HasSuffix(e.Name(), ".go") && !strings.HasSuffix(e.Name(), "_test.go")) || strings.HasSuffix(e.Name(), ".s") {
			overlay[filepath.Join(*repo, "verifhook", e.Name())] = filepath.Join(*hook, e.Name())
		}
	}
	// site table
	var sb strings.Builder
	sb.WriteString("//go:build verif\n\npackage verifhook\n\n// Code generated by verif/instr. DO NOT EDIT.\n\nvar Sites = []string{\n")
	for _, s := range in.sites {
		fmt.Fprintf(&sb, "\t%q,\n", s)
	}
	sb.WriteString("}\n\n// SyncSite[i]: the statement after site i may synchronise (see verif/instr).\nvar SyncSite = []bool{\n")
	for _, b := range in.syncSite {
		fmt.Fprintf(&sb, "\t%v,\n", b)
	}
	sb.WriteString("}\n")
	sitesFile := filepath.Join(*out, "sites_gen.go")
	os.WriteFile(sitesFile, []byte(sb.String()), 0o644)
	overlay[filepath.Join(*repo, "verifhook", "sites_gen.go")] = sitesFile
	for _, e := range extras {
		kv := strings.SplitN(e, "=", 2)
		if len(kv) == 2 {
			overlay[kv[0]] = kv[1]
		}
	}
	b, _ := json.MarshalIndent(map[string]any{"Replace": overlay}, "", " ")
	if err := os.WriteFile(filepath.Join(*out, "overlay.json"), b, 0o644); err != nil {
		fmt.Fprintln(os.Stderr, "instr:", err)
		os.Exit(2)
	}
	fmt.Printf("instr: %d files, %d yield sites\n", len(overlay), len(in.sites))
}

package main

import (
	"bytes"
	"fmt"
	"go/ast"
	"go/importer"
	"go/parser"
	"go/token"
	"go/types"
	"io"
	"os"
	"os/exec"
	"path/filepath"
	"strings"
)

// typeInfo type-checks the packages that are about to be instrumented (against
// the export data `go list -export` produces for their dependencies), so that
// "range x" can be told apart: ranging over a channel synchronises, ranging
// over a slice, map or string does not. Anything that cannot be type-checked
// stays classified conservatively (may synchronise).
type typeInfo struct {
	fset  *token.FileSet
	files map[string]*ast.File // absolute path -> parsed file (shared with the instrumenter)
	types map[ast.Expr]types.TypeAndValue
	notes []string
}

func loadTypes(fset *token.FileSet, repo string, dirs []string) *typeInfo {
	ti := &typeInfo{fset: fset, files: map[string]*ast.File{}, types: map[ast.Expr]types.TypeAndValue{}}
	cmd := exec.Command("go", "list", "-export", "-deps", "-f", "{{.ImportPath}}\t{{.Export}}", "./...")
	cmd.Dir = repo
	var errb bytes.Buffer
	cmd.Stderr = &errb
	out, err := cmd.Output()
	if err != nil {
		ti.notes = append(ti.notes, fmt.Sprintf("go list -export failed (%v): range statements stay conservative\n%s", err, errb.String()))
		return ti
	}
	export := map[string]string{}
	for _, line := range strings.Split(string(out), "\n") {
		if kv := strings.SplitN(line, "\t", 2); len(kv) == 2 && kv[1] != "" {
			export[kv[0]] = kv[1]
		}
	}
	lookup := func(path string) (io.ReadCloser, error) {
		f, ok := export[path]
		if !ok {
			return nil, fmt.Errorf("no export data for %s", path)
		}
		return os.Open(f)
	}
	imp := importer.ForCompiler(fset, "gc", lookup)
	for _, dir := range dirs {
		full := filepath.Join(repo, dir)
		ents, _ := os.ReadDir(full)
		var files []*ast.File
		for _, e := range ents {
			if !strings.HasSuffix(e.Name(), ".go") || strings.HasSuffix(e.Name(), "_test.go") {
				continue
			}
			p := filepath.Join(full, e.Name())
			f, err := parser.ParseFile(fset, p, nil, parser.ParseComments)
			if err != nil {
				ti.notes = append(ti.notes, fmt.Sprintf("%s: %v", p, err))
				continue
			}
			ti.files[p] = f
			files = append(files, f)
		}
		info := &types.Info{Types: map[ast.Expr]types.TypeAndValue{}}
		conf := types.Config{Importer: imp, Error: func(error) {}}
		if _, err := conf.Check(dir, fset, files, info); err != nil {
			ti.notes = append(ti.notes, fmt.Sprintf("type check of %s: %v (range statements there stay conservative where untyped)", dir, err))
		}
		for k, v := range info.Types {
			ti.types[k] = v
		}
	}
	return ti
}

// rangesOverChannel: true unless the operand is known not to be a channel.
func (ti *typeInfo) rangesOverChannel(x ast.Expr) bool {
	if ti == nil {
		return true
	}
	tv, ok := ti.types[x]
	if !ok || tv.Type == nil {
		return true
	}
	switch tv.Type.Underlying().(type) {
	case *types.Slice, *types.Array, *types.Map, *types.Basic, *types.Pointer:
		return false // pointer: pointer to array
	}
	return true // channels, functions (range-over-func), type parameters, anything unknown
}

package simkit

import (
	"bufio"
	"bytes"
	"encoding/json"
	"fmt"
	"os"
	"os/exec"
	"path/filepath"
	"sort"
	"strconv"
	"strings"
	"sync"
	"time"
)

// Phase is one batch of runs of one engine in one worker binary.
type Phase struct {
	Label      string
	BinKind    string // recorded in replay files so that a replay picks the same kind of binary
	Bin        string
	Engine     string
	Runs       uint64
	Workers    int
	Env        []string
	MaxSeconds int
	DetSample  int      // indices re-executed twice for the determinism self-test
	DetEnvB    []string // environment of the second execution (e.g. GOMAXPROCS=16)
	Samples    int
	// HistTail > 0: the last HistTail runs of every worker (those with the
	// longest process history) are re-executed alone in fresh processes and
	// must observe the same results (Outcome.Observed); a difference that is
	// stable across two fresh executions is a HistoryClass violation.
	HistTail int
	// PostWorker lets a phase interpret a finished worker process (e.g. race
	// detector logs). It may add violations.
	PostWorker func(w int, stderr string, add func(Violation, uint64))
}

type Check struct {
	Property       string
	Tier           string
	Seed           uint64
	Level          string
	Rule           string
	Assumptions    []string
	Components     map[string][]string
	RequiredProbes []string
	Phases         []Phase
	VerifDir       string
	ShrinkBudget   time.Duration
	Extra          map[string]any
	// ExtraViolations are produced by non-batch parts of a check (e.g. the
	// stack-ceiling child processes of C10).
	ExtraViolations []FoundViolation
	ExtraEvals      int
	ExtraSamples    []any
}

type FoundViolation struct {
	V      Violation
	Seed   uint64
	Index  uint64
	Tape   []uint32
	Engine  string
	Bin     string
	BinKind string
	Env     []string
	Replay  string // already written replay file (extra violations)
	// the worker's run sequence was Start, Start+Stride, ...
	Start, Stride uint64
}

type KnownFinding struct {
	Property  string `json:"property"`
	Signature string `json:"signature"`
	Status    string `json:"status"` // "known" or "fixed"
	Commit    string `json:"commit,omitempty"`
	What      string `json:"what"`
}

type knownFile struct {
	Findings []KnownFinding `json:"findings"`
}

func LoadKnown(dir string) ([]KnownFinding, error) {
	b, err := os.ReadFile(filepath.Join(dir, "known_findings.json"))
	if err != nil {
		return nil, err
	}
	var kf knownFile
	if err := json.Unmarshal(b, &kf); err != nil {
		return nil, err
	}
	return kf.Findings, nil
}

type phaseResult struct {
	sum        Summary
	fps        map[uint64]bool
	found      []FoundViolation
	harness    []string
	samples    []any
	wall       float64
	timedOut   bool
	detChecked int
	histChecked int
}

func repoInfo() map[string]string {
	out := map[string]string{}
	repo := os.Getenv("VERIF_REPO")
	if repo == "" {
		repo = "/repo"
	}
	out["path"] = repo
	if b, err := exec.Command("git", "-C", repo, "rev-parse", "HEAD").Output(); err == nil {
		out["head"] = strings.TrimSpace(string(b))
	}
	if b, err := exec.Command("git", "-C", repo, "diff", "--stat").Output(); err == nil {
		out["dirty_hash"] = fmt.Sprintf("%016x", Hash64(string(b)))
	}
	return out
}

func runWorker(bin string, args []string, env []string, onLine func(line []byte)) (stderrTail string, lastBegin int64, err error) {
	cmd := exec.Command(bin, args...)
	cmd.Env = append(os.Environ(), env...)
	var stderr bytes.Buffer
	cmd.Stderr = &stderr
	out, perr := cmd.StdoutPipe()
	if perr != nil {
		return "", -1, perr
	}
	if err := cmd.Start(); err != nil {
		return "", -1, err
	}
	lastBegin = -1
	rd := bufio.NewReaderSize(out, 1<<20)
	// watchdog: a worker that reports nothing for 3 minutes is hung
	progress := make(chan struct{}, 1)
	stop := make(chan struct{})
	hung := false
	go func() {
		for {
			select {
			case <-progress:
			case <-stop:
				return
			case <-time.After(180 * time.Second):
				hung = true
				cmd.Process.Kill()
				return
			}
		}
	}()
	defer close(stop)
	for {
		line, rerr := rd.ReadBytes('\n')
		select {
		case progress <- struct{}{}:
		default:
		}
		if len(line) > 0 {
			if line[0] == 'b' && len(line) > 2 && line[1] == ' ' {
				if v, e := strconv.ParseInt(strings.TrimSpace(string(line[2:])), 10, 64); e == nil {
					lastBegin = v
				}
			} else {
				onLine(line)
			}
		}
		if rerr != nil {
			break
		}
	}
	err = cmd.Wait()
	if hung {
		err = fmt.Errorf("watchdog: no progress for 180s (hang), worker killed")
	}
	s := stderr.String()
	if len(s) > 6000 {
		// a fatal error names itself at the very beginning of a long dump
		s = s[:2000] + "\n…\n" + s[len(s)-4000:]
	}
	return s, lastBegin, err
}

func (c *Check) runPhase(p Phase) *phaseResult {
	res := &phaseResult{fps: map[uint64]bool{}}
	res.sum.Faults = map[string]int{}
	res.sum.Probes = map[string]int{}
	start := time.Now()
	workers := p.Workers
	if workers <= 0 {
		workers = 16
	}
	if uint64(workers) > p.Runs {
		workers = int(p.Runs)
	}
	if workers == 0 {
		return res
	}
	deadline := int64(0)
	if p.MaxSeconds > 0 {
		deadline = time.Now().Unix() + int64(p.MaxSeconds)
	}
	var mu sync.Mutex
	var wg sync.WaitGroup
	var tails []tailRef
	for w := 0; w < workers; w++ {
		wg.Add(1)
		go func(w int) {
			defer wg.Done()
			count := p.Runs / uint64(workers)
			if uint64(w) < p.Runs%uint64(workers) {
				count++
			}
			samples := 0
			if w == 0 {
				samples = p.Samples
			}
			args := []string{"worker", "--engine", p.Engine, "--base", fmt.Sprint(c.Seed),
				"--start", fmt.Sprint(w), "--stride", fmt.Sprint(workers), "--count", fmt.Sprint(count),
				"--deadline", fmt.Sprint(deadline), "--samples", fmt.Sprint(samples)}
			if p.HistTail > 0 {
				args = append(args, "--tail", fmt.Sprint(p.HistTail))
			}
			gotSummary := false
			env := append([]string{}, p.Env...)
			env = append(env, "VERIF_WORKER="+fmt.Sprint(w))
			stderrTail, last, err := runWorker(p.Bin, args, env, func(line []byte) {
				mu.Lock()
				defer mu.Unlock()
				var probe struct {
					Type string `json:"type"`
				}
				if json.Unmarshal(line, &probe) != nil {
					res.harness = append(res.harness, "unparsable worker line: "+string(line))
					return
				}
				switch probe.Type {
				case "summary":
					var s Summary
					json.Unmarshal(line, &s)
					gotSummary = true
					for _, te := range s.Tail {
						tails = append(tails, tailRef{te, uint64(w), uint64(workers)})
					}
					res.sum.Runs += s.Runs
					res.sum.Evals += s.Evals
					res.sum.Steps += s.Steps
					res.sum.NonTrivial += s.NonTrivial
					for _, f := range s.Fingerprints {
						res.fps[f] = true
					}
					for k, v := range s.Faults {
						res.sum.Faults[k] += v
					}
					for k, v := range s.Probes {
						res.sum.Probes[k] += v
					}
					if s.TimedOut {
						res.timedOut = true
					}
				case "run":
					var rl runLine
					if json.Unmarshal(line, &rl) != nil || rl.Out == nil {
						return
					}
					o := rl.Out
					if o.Harness != "" {
						res.harness = append(res.harness, fmt.Sprintf("index %d seed %d: %s", o.Index, o.Seed, o.Harness))
					}
					for _, v := range o.Violations {
						res.found = append(res.found, FoundViolation{V: v, Seed: o.Seed, Index: o.Index, Tape: o.Tape, Engine: p.Engine, Bin: p.Bin, BinKind: p.BinKind, Env: p.Env, Start: uint64(w), Stride: uint64(workers)})
					}
					if o.Scenario != nil && len(res.samples) < 5 {
						res.samples = append(res.samples, map[string]any{"seed": o.Seed, "index": o.Index, "scenario": o.Scenario, "faults": o.Faults, "probes": o.Probes})
					}
				}
			})
			mu.Lock()
			defer mu.Unlock()
			if p.PostWorker != nil {
				p.PostWorker(w, stderrTail, func(v Violation, idx uint64) {
					res.found = append(res.found, FoundViolation{V: v, Index: idx, Seed: Mix(c.Seed, p.Engine, idx), Engine: p.Engine, Bin: p.Bin, BinKind: p.BinKind, Env: p.Env})
				})
			}
			if err != nil || !gotSummary {
				// the worker process died: attribute to the run it was executing
				if last >= 0 {
					idx := uint64(last)
					sig := "process-abort"
					switch {
					case strings.Contains(stderrTail, "stack overflow") || strings.Contains(stderrTail, "goroutine stack exceeds"):
						sig = "process-abort:stack-overflow"
					case strings.Contains(stderrTail, "concurrent map"):
						sig = "process-abort:concurrent-map-access"
					case err != nil && strings.Contains(err.Error(), "watchdog"):
						sig = "process-abort:hang"
					case strings.Contains(stderrTail, "out of memory"):
						sig = "process-abort:out-of-memory"
					}
					res.found = append(res.found, FoundViolation{
						V: Violation{Property: c.Property, Class: "process-abort", Signature: sig,
							Detail: fmt.Sprintf("worker process died (%v) while executing run %d; stderr tail:\n%s", err, idx, stderrTail)},
						Seed: Mix(c.Seed, p.Engine, idx), Index: idx, Engine: p.Engine, Bin: p.Bin, BinKind: p.BinKind, Env: p.Env})
				} else {
					res.harness = append(res.harness, fmt.Sprintf("worker %d failed before any run: %v\n%s", w, err, stderrTail))
				}
			}
		}(w)
	}
	wg.Wait()
	res.wall = time.Since(start).Seconds()
	if p.HistTail > 0 && len(res.found) == 0 {
		c.historyTest(p, tails, res)
	}
	// determinism self-test: same indices, two fresh processes, different env
	if p.DetSample > 0 && res.sum.Runs > 0 {
		n := uint64(p.DetSample)
		if n > p.Runs {
			n = p.Runs
		}
		skipDet := map[uint64]bool{}
		var skipMu sync.Mutex
		get := func(env []string) (map[uint64]string, string) {
			m := map[uint64]string{}
			args := []string{"worker", "--engine", p.Engine, "--base", fmt.Sprint(c.Seed), "--start", "0", "--stride",
				fmt.Sprint(maxU(1, p.Runs/n)), "--count", fmt.Sprint(n), "--full"}
			st, _, err := runWorker(p.Bin, args, env, func(line []byte) {
				var rl runLine
				if json.Unmarshal(line, &rl) == nil && rl.Type == "run" && rl.Out != nil {
					m[rl.Out.Index] = rl.Out.Canonical()
					if rl.Out.TimingDependent {
						skipMu.Lock()
						skipDet[rl.Out.Index] = true
						skipMu.Unlock()
					}
				}
			})
			if err != nil {
				return m, fmt.Sprintf("%v: %s", err, st)
			}
			return m, ""
		}
		envB := p.DetEnvB
		if envB == nil {
			envB = []string{"GOMAXPROCS=16"}
		}
		var a, b map[uint64]string
		var ea, eb string
		var wg2 sync.WaitGroup
		wg2.Add(2)
		go func() { defer wg2.Done(); a, ea = get(append(append([]string{}, p.Env...), "GOMAXPROCS=1")) }()
		go func() { defer wg2.Done(); b, eb = get(append(append([]string{}, p.Env...), envB...)) }()
		wg2.Wait()
		if ea != "" || eb != "" {
			// a crashing run was already attributed above; only note it
			if len(res.found) == 0 {
				res.harness = append(res.harness, "determinism self-test worker failed: "+ea+eb)
			}
		}
		keys := make([]uint64, 0, len(a))
		for k := range a {
			keys = append(keys, k)
		}
		sort.Slice(keys, func(i, j int) bool { return keys[i] < keys[j] })
		for _, k := range keys {
			if skipDet[k] {
				continue
			}
			if bv, ok := b[k]; ok {
				res.detChecked++
				if bv != a[k] {
					res.harness = append(res.harness, fmt.Sprintf("NONDETERMINISM in engine %s at index %d:\nA=%s\nB=%s", p.Engine, k, trunc(a[k], 3000), trunc(bv, 3000)))
					break
				}
			}
		}
	}
	return res
}

type tailRef struct {
	TailEntry
	start, stride uint64
}

// historyTest: every tail run is executed alone in a fresh process; its
// observed results must equal what the batch worker observed after hundreds of
// earlier runs in the same process.
func (c *Check) historyTest(p Phase, tails []tailRef, res *phaseResult) {
	sort.Slice(tails, func(i, j int) bool { return tails[i].Index < tails[j].Index })
	type verdict struct {
		t     tailRef
		alone *Outcome
		err   error
	}
	out := make([]verdict, len(tails))
	sem := make(chan struct{}, 16)
	var wg sync.WaitGroup
	for i := range tails {
		wg.Add(1)
		sem <- struct{}{}
		go func(i int) {
			defer wg.Done()
			defer func() { <-sem }()
			o, err := ObserveIn(p.Bin, p.Env, p.Engine, c.Seed, tails[i].Index, nil, false)
			out[i] = verdict{tails[i], o, err}
		}(i)
	}
	wg.Wait()
	reported := 0
	for _, v := range out {
		if v.err != nil {
			res.harness = append(res.harness, "history test: "+v.err.Error())
			continue
		}
		if v.alone.TimingDependent {
			continue
		}
		res.histChecked++
		if v.alone.Observed == v.t.Observed || reported >= 2 {
			continue
		}
		// stable? a second fresh execution must agree with the first
		again, err := ObserveIn(p.Bin, p.Env, p.Engine, c.Seed, v.t.Index, nil, false)
		if err != nil || again.Observed != v.alone.Observed {
			res.harness = append(res.harness, fmt.Sprintf("NONDETERMINISM in engine %s at index %d: two fresh processes observe different results", p.Engine, v.t.Index))
			continue
		}
		var prior []uint64
		for k := v.t.start; k < v.t.Index; k += v.t.stride {
			prior = append(prior, k)
		}
		differs := func(pr []uint64) (bool, *Outcome) {
			o, err := ObserveIn(p.Bin, p.Env, p.Engine, c.Seed, v.t.Index, pr, true)
			return err == nil && o.Observed != v.alone.Observed, o
		}
		ok, _ := differs(prior)
		if !ok {
			res.harness = append(res.harness, fmt.Sprintf("history test: index %d observed %016x in its batch worker and %016x alone, but replaying the worker's %d earlier runs does not reproduce the difference", v.t.Index, v.t.Observed, v.alone.Observed, len(prior)))
			continue
		}
		// minimise the prior list (fresh process per attempt, bounded)
		cur := prior
		deadline := time.Now().Add(c.ShrinkBudget * 3)
		for chunk := (len(cur) + 1) / 2; chunk >= 1 && time.Now().Before(deadline); {
			removed := false
			for i := 0; i+chunk <= len(cur) && time.Now().Before(deadline); {
				cand := append(append([]uint64{}, cur[:i]...), cur[i+chunk:]...)
				if d, _ := differs(cand); d {
					cur = cand
					removed = true
				} else {
					i += chunk
				}
			}
			if chunk == 1 && !removed {
				break
			}
			if !removed {
				chunk /= 2
			} else if chunk > len(cur) {
				chunk = len(cur)
			}
			if len(cur) == 0 {
				break
			}
		}
		_, after := differs(cur)
		aloneFull, _ := ObserveIn(p.Bin, p.Env, p.Engine, c.Seed, v.t.Index, nil, true)
		detail := fmt.Sprintf("run %d returns other results after %d earlier run(s) of the same process (indices %v) than in a fresh process: state kept outside the documents and compiled expressions survives between unrelated calls", v.t.Index, len(cur), headU(cur, 12))
		if after != nil && aloneFull != nil {
			detail += "\n" + DiffOutcomes(aloneFull, after)
		}
		viol := Violation{Property: c.Property, Class: HistoryClass, Signature: HistoryClass, Detail: detail}
		path := filepath.Join(c.VerifDir, "replays", fmt.Sprintf("%s-%s-%d.json", c.Property, HistoryClass, v.t.Index))
		os.MkdirAll(filepath.Dir(path), 0o755)
		rf := ReplayFile{Property: c.Property, Engine: p.Engine, Class: HistoryClass, Signature: HistoryClass, Seed: Mix(c.Seed, p.Engine, v.t.Index), Index: v.t.Index,
			Violation: &viol, Repo: repoInfo(), Prior: cur, BaseSeed: c.Seed, Minimised: true,
			Extra: map[string]any{"bin_env": p.Env, "bin_kind": p.BinKind, "base_seed": c.Seed, "prior_runs_before_minimisation": len(prior)}}
		if aloneFull != nil {
			rf.Scenario = aloneFull.Scenario
		}
		b, _ := json.MarshalIndent(rf, "", " ")
		os.WriteFile(path, append(b, '\n'), 0o644)
		// confirm in a fresh process
		cmd := exec.Command(p.Bin, "exec1", "--file", path)
		cmd.Env = append(os.Environ(), p.Env...)
		err = cmd.Run()
		if ee, ok := err.(*exec.ExitError); !ok || ee.ExitCode() != 1 {
			res.harness = append(res.harness, fmt.Sprintf("history test: replay file %s does not reproduce", path))
			continue
		}
		reported++
		res.found = append(res.found, FoundViolation{V: viol, Seed: rf.Seed, Index: v.t.Index, Engine: p.Engine, Bin: p.Bin, BinKind: p.BinKind, Env: p.Env, Replay: path})
	}
}

func headU(v []uint64, n int) []uint64 {
	if len(v) > n {
		return v[:n]
	}
	return v
}

// replayWithPriors tries the violation after the runs its worker executed
// before it, then minimises that list (fresh process per attempt).
func replayWithPriors(rf *ReplayFile, fv FoundViolation, path string) bool {
	if fv.Stride == 0 {
		return false
	}
	var prior []uint64
	for k := fv.Start; k < fv.Index; k += fv.Stride {
		prior = append(prior, k)
	}
	if len(prior) == 0 {
		return false
	}
	base, _ := rf.Extra.(map[string]any)["base_seed"].(uint64)
	rf.BaseSeed = base
	try := func(pr []uint64) bool {
		rf.Prior = pr
		b, _ := json.MarshalIndent(rf, "", " ")
		os.WriteFile(path, append(b, '\n'), 0o644)
		cmd := exec.Command(fv.Bin, "exec1", "--file", path)
		cmd.Env = append(os.Environ(), fv.Env...)
		err := cmd.Run()
		ee, ok := err.(*exec.ExitError)
		return ok && ee.ExitCode() == 1
	}
	if !try(prior) {
		return false
	}
	// ddmin over the prior list, bounded
	cur := prior
	deadline := time.Now().Add(60 * time.Second)
	for chunk := len(cur) / 2; chunk >= 1 && time.Now().Before(deadline); {
		removed := false
		for i := 0; i+chunk <= len(cur) && time.Now().Before(deadline); {
			cand := append(append([]uint64{}, cur[:i]...), cur[i+chunk:]...)
			if try(cand) {
				cur = cand
				removed = true
			} else {
				i += chunk
			}
		}
		if !removed || chunk > len(cur) {
			chunk /= 2
		}
		if chunk > len(cur) {
			chunk = len(cur)
		}
	}
	return try(cur)
}

func maxU(a, b uint64) uint64 {
	if a > b {
		return a
	}
	return b
}

func trunc(s string, n int) string {
	if len(s) > n {
		return s[:n] + "…"
	}
	return s
}

// RunCheck executes all phases, triages violations, writes evidence, prints the
// interface lines and returns the exit code.
func RunCheck(c *Check) int {
	start := time.Now()
	known, kerr := LoadKnown(c.VerifDir)
	if kerr != nil {
		fmt.Println("HARNESS: cannot read known_findings.json:", kerr)
		return 2
	}
	if c.ShrinkBudget == 0 {
		c.ShrinkBudget = 20 * time.Second
		if c.Tier == "thorough" {
			c.ShrinkBudget = 120 * time.Second
		}
	}
	if v := os.Getenv("VERIF_SHRINK_S"); v != "" {
		// triage sweeps over many seeded changes only need the verdict
		if n, err := strconv.Atoi(v); err == nil && n > 0 {
			c.ShrinkBudget = time.Duration(n) * time.Second
		}
	}
	total := &phaseResult{fps: map[uint64]bool{}}
	total.sum.Faults = map[string]int{}
	total.sum.Probes = map[string]int{}
	phaseInfo := []map[string]any{}
	for _, p := range c.Phases {
		r := c.runPhase(p)
		total.sum.Runs += r.sum.Runs
		total.sum.Evals += r.sum.Evals
		total.sum.Steps += r.sum.Steps
		total.sum.NonTrivial += r.sum.NonTrivial
		for f := range r.fps {
			total.fps[f^Hash64(p.Label)] = true
		}
		for k, v := range r.sum.Faults {
			total.sum.Faults[k] += v
		}
		for k, v := range r.sum.Probes {
			total.sum.Probes[k] += v
		}
		total.found = append(total.found, r.found...)
		total.harness = append(total.harness, r.harness...)
		if len(total.samples) < 6 {
			total.samples = append(total.samples, r.samples...)
		}
		total.detChecked += r.detChecked
		total.histChecked += r.histChecked
		rph := 0.0
		if r.wall > 0 {
			rph = float64(r.sum.Runs) / r.wall * 3600
		}
		phaseInfo = append(phaseInfo, map[string]any{"phase": p.Label, "engine": p.Engine, "runs": r.sum.Runs, "requested": p.Runs,
			"wall_s": round1(r.wall), "runs_per_hour": int(rph), "stopped_by_time_cap": r.timedOut,
			"distinct_nontrivial": len(r.fps), "determinism_pairs_compared": r.detChecked, "history_pairs_compared": r.histChecked})
		fmt.Printf("phase %-22s runs=%d nontrivial-distinct=%d wall=%.1fs violations=%d harness=%d\n", p.Label, r.sum.Runs, len(r.fps), r.wall, len(r.found), len(r.harness))
	}
	total.found = append(total.found, c.ExtraViolations...)

	// triage
	knownHit := map[string]KnownFinding{}
	type group struct {
		fv    FoundViolation
		count int
		alts  []FoundViolation // other occurrences, tried if the first does not replay
	}
	groups := map[string]*group{}
	order := []string{}
	for _, fv := range total.found {
		matched := false
		for _, k := range known {
			if k.Status == "known" && k.Property == fv.V.Property && k.Signature == fv.V.Signature {
				knownHit[k.Property+"|"+k.Signature] = k
				matched = true
			}
		}
		if matched {
			continue
		}
		key := fv.V.Property + "|" + fv.V.Class + "|" + fv.V.Signature
		if g, ok := groups[key]; ok {
			g.count++
			if len(fv.Tape) > 0 && (len(g.fv.Tape) == 0 || len(fv.Tape) < len(g.fv.Tape)) {
				g.alts = append(g.alts, g.fv)
				g.fv = fv
			} else if len(g.alts) < 3 {
				g.alts = append(g.alts, fv)
			}
		} else {
			groups[key] = &group{fv: fv, count: 1}
			order = append(order, key)
		}
	}
	sort.Strings(order)
	exit := 0
	os.MkdirAll(filepath.Join(c.VerifDir, "replays"), 0o755)
	lines := []string{}
	nViol := 0
	for gi := 0; gi < len(order); gi++ {
		key := order[gi]
		g := groups[key]
		fv := g.fv
		nViol++
		path := fv.Replay
		if path == "" {
			path = filepath.Join(c.VerifDir, "replays", fmt.Sprintf("%s-%s-%d.json", fv.V.Property, sanitize(fv.V.Signature), fv.Index))
			rf := ReplayFile{Property: fv.V.Property, Engine: fv.Engine, Class: fv.V.Class, Signature: fv.V.Signature, Seed: fv.Seed,
				Index: fv.Index, Tape: fv.Tape, Violation: &fv.V, Repo: repoInfo(), Extra: map[string]any{"bin_env": fv.Env, "bin_kind": fv.BinKind, "base_seed": c.Seed, "occurrences_in_batch": g.count}}
			if rf.Tape == nil && fv.V.Class != "process-abort" {
				rf.Tape = []uint32{}
			}
			if fv.V.Class == "process-abort" || fv.Tape == nil {
				// no recorded tape: regenerate by seed at replay time
				rf.Extra = map[string]any{"bin_env": fv.Env, "bin_kind": fv.BinKind, "base_seed": c.Seed, "replay_by_seed": true, "occurrences_in_batch": g.count}
			}
			b, _ := json.MarshalIndent(rf, "", " ")
			os.WriteFile(path, append(b, '\n'), 0o644)
			if fv.Tape != nil && gi < 4 {
				// minimise in a separate process, then confirm in a fresh one
				cmd := exec.Command(fv.Bin, "shrink", "--file", path, "--budget", c.ShrinkBudget.String())
				cmd.Env = append(os.Environ(), fv.Env...)
				if out, err := cmd.CombinedOutput(); err != nil {
					fmt.Printf("note: minimisation of %s failed (%v): %s\n", path, err, trunc(string(out), 500))
					os.WriteFile(path, append(b, '\n'), 0o644)
				}
				cmd = exec.Command(fv.Bin, "exec1", "--file", path)
				cmd.Env = append(os.Environ(), fv.Env...)
				cmd.Stdout = nil
				err := cmd.Run()
				if ee, ok := err.(*exec.ExitError); !ok || ee.ExitCode() != 1 {
					// minimised file does not replay: fall back to the recorded tape
					os.WriteFile(path, append(b, '\n'), 0o644)
					cmd = exec.Command(fv.Bin, "exec1", "--file", path)
					cmd.Env = append(os.Environ(), fv.Env...)
					err = cmd.Run()
					if ee, ok := err.(*exec.ExitError); !ok || ee.ExitCode() != 1 {
						// Not reproducible alone: does it depend on what the same worker
						// process ran before (state kept in package-level variables)?
						if !replayWithPriors(&rf, fv, path) {
							if len(g.alts) > 0 {
								// another occurrence of the same violation class may replay
								g.fv, g.alts = g.alts[len(g.alts)-1], g.alts[:len(g.alts)-1]
								os.Remove(path)
								nViol--
								gi--
								continue
							}
							total.harness = append(total.harness, fmt.Sprintf("violation %s at index %d does not replay in a fresh process, neither alone nor after the runs the same worker executed before it (file %s)", fv.V.Class, fv.Index, path))
							nViol--
							continue
						}
						fmt.Printf("note: %s reproduces only after %d earlier run(s) of the same process: state survives between runs\n", path, len(rf.Prior))
					}
				}
			}
		}
		exit = 1
		lines = append(lines, fmt.Sprintf("VIOLATION property=%s replay=%s", fv.V.Property, path))
		fmt.Printf("  class=%s signature=%s occurrences=%d\n  %s\n", fv.V.Class, fv.V.Signature, g.count, trunc(fv.V.Detail, 1200))
	}
	for _, k := range SortedKeys(knownHit) {
		kf := knownHit[k]
		fmt.Printf("KNOWN-FINDING: property=%s %s [%s]\n", kf.Property, kf.What, kf.Signature)
	}
	for _, l := range lines {
		fmt.Println(l)
	}

	// probes that must fire in the thorough tier
	if c.Tier == "thorough" {
		for _, p := range c.RequiredProbes {
			if total.sum.Probes[p] == 0 && total.sum.Faults[p] == 0 {
				total.harness = append(total.harness, "required probe never fired: "+p)
			}
		}
	}

	wall := time.Since(start).Seconds()
	cov := map[string]any{
		"evaluations":               total.sum.Runs + c.ExtraEvals,
		"distinct_nontrivial":       len(total.fps),
		"rule":                      c.Rule,
		"samples":                   append(append([]any{}, total.samples...), c.ExtraSamples...),
		"executions_of_code_under_test": total.sum.Evals,
		"steps":                     total.sum.Steps,
		"simulated_time":            "none: nothing in xsel reads a clock; progress is counted in steps (reads delivered, events pulled, operations, scheduler steps)",
		"fault_kinds_fired":         total.sum.Faults,
		"probes":                    total.sum.Probes,
		"phases":                    phaseInfo,
		"determinism_pairs_compared": total.detChecked,
		"history_pairs_compared":     total.histChecked,
		"components":                c.Components,
		"known_findings_exercised":  SortedKeys(knownHit),
		"harness_doubts":            len(total.harness),
	}
	if wall > 0 {
		cov["runs_per_hour"] = int(float64(total.sum.Runs) / wall * 3600)
		cov["seeds_per_hour"] = int(float64(total.sum.Runs) / wall * 3600)
	}
	for k, v := range c.Extra {
		cov[k] = v
	}
	ev := map[string]any{
		"property_id": c.Property, "tier": c.Tier, "seed": int64(c.Seed), "level": c.Level,
		"coverage": cov, "assumptions": c.Assumptions, "wall_s": round1(wall), "violations": nViol,
	}
	os.MkdirAll(filepath.Join(c.VerifDir, "evidence"), 0o755)
	b, _ := json.MarshalIndent(ev, "", " ")
	if err := os.WriteFile(filepath.Join(c.VerifDir, "evidence", c.Property+".json"), append(b, '\n'), 0o644); err != nil {
		fmt.Println("HARNESS: cannot write evidence:", err)
		return 2
	}
	if len(total.harness) > 0 {
		for i, h := range total.harness {
			if i < 5 {
				fmt.Println("HARNESS:", trunc(h, 4000))
			}
		}
		if exit == 0 {
			return 2
		}
	}
	if exit == 0 {
		fmt.Printf("OK property=%s tier=%s runs=%d distinct_nontrivial=%d wall=%.1fs\n", c.Property, c.Tier, total.sum.Runs+c.ExtraEvals, len(total.fps), wall)
	}
	return exit
}

func round1(f float64) float64 { return float64(int(f*10+0.5)) / 10 }

func sanitize(s string) string {
	var b strings.Builder
	for _, r := range s {
		if r >= 'a' && r <= 'z' || r >= 'A' && r <= 'Z' || r >= '0' && r <= '9' || r == '-' || r == '_' {
			b.WriteRune(r)
		} else {
			b.WriteByte('_')
		}
	}
	return b.String()
}

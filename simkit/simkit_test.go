package simkit

import (
	"testing"
	"time"
)

func TestTapeReplayReproducesDraws(t *testing.T) {
	a := NewTape(42)
	var got []int
	for i := 0; i < 1000; i++ {
		got = append(got, a.Draw(1+i%17))
	}
	b := ReplayTape(42, a.Recorded())
	for i := 0; i < 1000; i++ {
		if v := b.Draw(1 + i%17); v != got[i] {
			t.Fatalf("draw %d: %d != %d", i, v, got[i])
		}
	}
	if b.Draw(100) != 0 {
		t.Fatal("exhausted replay tape must yield 0")
	}
}

func TestShrinkFindsSmallTape(t *testing.T) {
	// property: fails iff the tape contains a value >= 7 somewhere after a value 3
	fails := func(tp []uint32) bool {
		seen3 := false
		for _, v := range tp {
			if v == 3 {
				seen3 = true
			} else if seen3 && v >= 7 {
				return true
			}
		}
		return false
	}
	big := make([]uint32, 400)
	for i := range big {
		big[i] = uint32(i * 7 % 11)
	}
	if !fails(big) {
		t.Skip("construction")
	}
	min, _ := Shrink(big, fails, 5*time.Second)
	if !fails(min) || len(min) > 2 {
		t.Fatalf("shrunk to %v", min)
	}
}

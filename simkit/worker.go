package simkit

import (
	"bufio"
	"bytes"
	"encoding/json"
	"flag"
	"fmt"
	"os"
	"os/exec"
	"runtime/debug"
	"strconv"
	"strings"
	"time"
)

// Engine is one simulated system + workload + oracle. Run must be a pure
// function of (code, tape).
type Engine interface {
	Name() string
	Run(t *Tape, o *Outcome, full bool)
}

// EngineFunc adapts a function.
type EngineFunc struct {
	N string
	F func(t *Tape, o *Outcome, full bool)
	// Ref, when set, makes the engine a Referencer.
	Ref func(item int) string
}

func (e EngineFunc) Reference(item int) string {
	if e.Ref == nil {
		return ""
	}
	return e.Ref(item)
}

func (e EngineFunc) Name() string                          { return e.N }
func (e EngineFunc) Run(t *Tape, o *Outcome, full bool) { e.F(t, o, full) }

// RunOnce executes one run; panics escaping the engine are harness doubts
// unless the engine converted them into violations itself.
func RunOnce(e Engine, t *Tape, idx uint64, full bool) (o *Outcome) {
	o = NewOutcome(t.Seed)
	o.Index = idx
	defer func() {
		if r := recover(); r != nil {
			o.HarnessDoubt("engine panic: %v\n%s", r, debug.Stack())
		}
		o.Tape = t.Recorded()
	}()
	e.Run(t, o, full)
	return o
}

type Summary struct {
	Type         string         `json:"type"`
	Runs         int            `json:"runs"`
	Evals        int            `json:"evals"`
	Steps        int            `json:"steps"`
	NonTrivial   int            `json:"nontrivial"`
	Fingerprints []uint64       `json:"fingerprints"`
	Faults       map[string]int `json:"faults"`
	Probes       map[string]int `json:"probes"`
	TimedOut     bool           `json:"timed_out"`
	// Tail: Observed hashes of the last runs of this worker (the ones with the
	// longest process history behind them); see Phase.HistTail.
	Tail []TailEntry `json:"tail,omitempty"`
}

type TailEntry struct {
	Index    uint64 `json:"index"`
	Observed uint64 `json:"observed"`
}

// HistoryClass is reported when a run returns other results after earlier runs
// of the same process than in a fresh process.
const HistoryClass = "results-depend-on-process-history"

type runLine struct {
	Type string   `json:"type"`
	Out  *Outcome `json:"out"`
}

// runs slower than this are named on stderr (VERIF_SLOW_MS overrides)
var slowRun = func() time.Duration {
	if v := os.Getenv("VERIF_SLOW_MS"); v != "" {
		var ms int
		fmt.Sscan(v, &ms)
		if ms > 0 {
			return time.Duration(ms) * time.Millisecond
		}
	}
	return 20 * time.Second
}()

// WorkerMain implements the "worker", "exec1" and "shrink" sub-commands shared
// by every harness binary.
func WorkerMain(args []string, engines map[string]Engine) int {
	if len(args) == 0 {
		fmt.Fprintln(os.Stderr, "usage: worker|exec1|shrink ...")
		return 2
	}
	switch args[0] {
	case "worker":
		return workerCmd(args[1:], engines)
	case "exec1":
		return exec1Cmd(args[1:], engines)
	case "shrink":
		return shrinkCmd(args[1:], engines)
	case "observe":
		return observeCmd(args[1:], engines)
	case "reference":
		fs := flag.NewFlagSet("reference", flag.ContinueOnError)
		engine := fs.String("engine", "", "")
		item := fs.Int("item", 0, "")
		if err := fs.Parse(args[1:]); err != nil {
			return 2
		}
		r, ok := engines[*engine].(Referencer)
		if !ok {
			return 2
		}
		fmt.Println(r.Reference(*item))
		return 0
	}
	fmt.Fprintln(os.Stderr, "unknown sub-command", args[0])
	return 2
}

func workerCmd(args []string, engines map[string]Engine) int {
	fs := flag.NewFlagSet("worker", flag.ContinueOnError)
	engine := fs.String("engine", "", "")
	base := fs.Uint64("base", 1, "")
	start := fs.Uint64("start", 0, "")
	stride := fs.Uint64("stride", 1, "")
	count := fs.Uint64("count", 1, "")
	deadline := fs.Int64("deadline", 0, "unix seconds; 0 = none")
	samples := fs.Int("samples", 0, "")
	full := fs.Bool("full", false, "emit every outcome with log (determinism self-test)")
	tail := fs.Int("tail", 0, "report the Observed hashes of the last N runs")
	if err := fs.Parse(args); err != nil {
		return 2
	}
	e := engines[*engine]
	if e == nil {
		fmt.Fprintln(os.Stderr, "unknown engine", *engine)
		return 2
	}
	w := bufio.NewWriterSize(os.Stdout, 1<<16)
	defer w.Flush()
	enc := json.NewEncoder(w)
	sum := Summary{Type: "summary", Faults: map[string]int{}, Probes: map[string]int{}}
	seen := map[uint64]bool{}
	for k := uint64(0); k < *count; k++ {
		if *deadline != 0 && time.Now().Unix() >= *deadline {
			sum.TimedOut = true
			break
		}
		idx := *start + k**stride
		fmt.Fprintf(w, "b %d\n", idx)
		w.Flush() // the driver's watchdog and crash attribution rely on seeing this line
		seed := Mix(*base, e.Name(), idx)
		wantFull := *full || int(k) < *samples
		began := time.Now()
		o := RunOnce(e, NewTape(seed), idx, wantFull)
		if d := time.Since(began); d > slowRun {
			fmt.Fprintf(os.Stderr, "slow run: engine %s index %d took %v\n", e.Name(), idx, d.Round(time.Second))
		}
		sum.Runs++
		sum.Evals += o.Evals
		sum.Steps += o.Steps
		if o.NonTrivial {
			sum.NonTrivial++
			if !seen[o.Fingerprint] {
				seen[o.Fingerprint] = true
				sum.Fingerprints = append(sum.Fingerprints, o.Fingerprint)
			}
		}
		for k, v := range o.Faults {
			sum.Faults[k] += v
		}
		for k, v := range o.Probes {
			sum.Probes[k] += v
		}
		if *tail > 0 && o.Observed != 0 && !o.TimingDependent && o.Harness == "" && len(o.Violations) == 0 {
			sum.Tail = append(sum.Tail, TailEntry{idx, o.Observed})
			if len(sum.Tail) > *tail {
				sum.Tail = sum.Tail[1:]
			}
		}
		if wantFull || len(o.Violations) > 0 || o.Harness != "" {
			if !wantFull {
				o.Scenario = nil
				o.Log = nil
			}
			if !*full && len(o.Violations) == 0 && o.Harness == "" {
				o.Tape = nil
			}
			enc.Encode(runLine{"run", o})
			w.Flush()
		}
	}
	enc.Encode(sum)
	return 0
}

// ReplayFile is the on-disk form of one failing (or sample) run.
type ReplayFile struct {
	Property      string      `json:"property"`
	Engine        string      `json:"engine"`
	Class         string      `json:"class"`
	Signature     string      `json:"signature"`
	Seed          uint64      `json:"seed"`
	Index         uint64      `json:"index"`
	Tape          []uint32    `json:"tape"`
	Probabilistic bool        `json:"probabilistic,omitempty"`
	Scenario      any         `json:"scenario,omitempty"`
	Log           []string    `json:"log,omitempty"`
	Violation     *Violation  `json:"violation,omitempty"`
	Repo          any         `json:"repo,omitempty"`
	// Prior lists runs (by index; seeds derive from BaseSeed) that the same
	// worker process executed before the failing run and that are needed to
	// reproduce it: the violation depends on process-level state left behind
	// by earlier runs (itself a sign of hidden state in the code under test).
	Prior    []uint64 `json:"prior_runs,omitempty"`
	BaseSeed uint64   `json:"base_seed,omitempty"`
	Minimised     bool        `json:"minimised"`
	ShrinkTries   int         `json:"shrink_tries,omitempty"`
	Extra         interface{} `json:"extra,omitempty"`
}

func loadReplay(path string) (*ReplayFile, error) {
	b, err := os.ReadFile(path)
	if err != nil {
		return nil, err
	}
	var rf ReplayFile
	if err := json.Unmarshal(b, &rf); err != nil {
		return nil, err
	}
	return &rf, nil
}

func hasClass(o *Outcome, class string, sig ...string) *Violation {
	for i := range o.Violations {
		if o.Violations[i].Class == class && (len(sig) == 0 || sig[0] == "" || o.Violations[i].Signature == sig[0]) {
			return &o.Violations[i]
		}
	}
	return nil
}

// exec1: re-execute one tape from a replay file; prints the outcome as JSON.
// Exit 1 if the recorded class is reproduced, 0 if not, 2 on harness doubt.
func exec1Cmd(args []string, engines map[string]Engine) int {
	fs := flag.NewFlagSet("exec1", flag.ContinueOnError)
	file := fs.String("file", "", "")
	if err := fs.Parse(args); err != nil {
		return 2
	}
	rf, err := loadReplay(*file)
	if err != nil {
		fmt.Fprintln(os.Stderr, "replay file:", err)
		return 2
	}
	e := engines[rf.Engine]
	if e == nil {
		fmt.Fprintln(os.Stderr, "unknown engine", rf.Engine)
		return 2
	}
	tape := ReplayTape(rf.Seed, rf.Tape)
	if rf.Tape == nil {
		tape = NewTape(rf.Seed) // recorded by seed only (e.g. the worker process died)
	}
	if rf.Class == HistoryClass {
		return replayHistory(rf)
	}
	runPriors(e, rf, rf.Prior)
	o := RunOnce(e, tape, rf.Index, true)
	b, _ := json.MarshalIndent(o, "", " ")
	os.Stdout.Write(b)
	os.Stdout.WriteString("\n")
	if o.Harness != "" {
		return 2
	}
	if rf.Class == "" {
		if len(o.Violations) > 0 {
			return 1
		}
		return 0
	}
	if hasClass(o, rf.Class, rf.Signature) != nil {
		return 1
	}
	return 0
}

// observe: run the prior indices, then one index, in THIS process; print the
// full outcome of that last run.
func observeCmd(args []string, engines map[string]Engine) int {
	fs := flag.NewFlagSet("observe", flag.ContinueOnError)
	engine := fs.String("engine", "", "")
	base := fs.Uint64("base", 1, "")
	index := fs.Uint64("index", 0, "")
	prior := fs.String("prior", "", "comma-separated indices, or @file")
	full := fs.Bool("full", false, "")
	if err := fs.Parse(args); err != nil {
		return 2
	}
	e := engines[*engine]
	if e == nil {
		return 2
	}
	pr := *prior
	if strings.HasPrefix(pr, "@") {
		b, err := os.ReadFile(pr[1:])
		if err != nil {
			return 2
		}
		pr = strings.TrimSpace(string(b))
	}
	for _, f := range strings.Split(pr, ",") {
		if f == "" {
			continue
		}
		idx, err := strconv.ParseUint(f, 10, 64)
		if err != nil {
			return 2
		}
		RunOnce(e, NewTape(Mix(*base, e.Name(), idx)), idx, false)
	}
	o := RunOnce(e, NewTape(Mix(*base, e.Name(), *index)), *index, *full)
	o.Tape = nil
	b, _ := json.Marshal(o)
	os.Stdout.Write(append(b, '\n'))
	return 0
}

// ObserveIn runs "observe" in a fresh process of bin and returns the outcome.
func ObserveIn(bin string, env []string, engine string, base, index uint64, prior []uint64, full bool) (*Outcome, error) {
	args := []string{"observe", "--engine", engine, "--base", fmt.Sprint(base), "--index", fmt.Sprint(index)}
	if full {
		args = append(args, "--full")
	}
	if len(prior) > 0 {
		var sb strings.Builder
		for i, p := range prior {
			if i > 0 {
				sb.WriteByte(',')
			}
			sb.WriteString(strconv.FormatUint(p, 10))
		}
		f, err := os.CreateTemp("", "verif-prior-*")
		if err != nil {
			return nil, err
		}
		f.WriteString(sb.String())
		f.Close()
		defer os.Remove(f.Name())
		args = append(args, "--prior", "@"+f.Name())
	}
	cmd := exec.Command(bin, args...)
	cmd.Env = append(os.Environ(), env...)
	out, err := cmd.Output()
	if err != nil {
		return nil, fmt.Errorf("observe %d after %d prior runs: %v", index, len(prior), err)
	}
	var o Outcome
	if err := json.Unmarshal(bytes.TrimSpace(out), &o); err != nil {
		return nil, err
	}
	return &o, nil
}

// replayHistory re-executes a HistoryClass replay file: the run alone in a
// fresh process, and after its prior runs in another fresh process. Exit 1 when
// the observed results differ (and print where).
func replayHistory(rf *ReplayFile) int {
	self, err := os.Executable()
	if err != nil {
		return 2
	}
	alone, err1 := ObserveIn(self, nil, rf.Engine, rf.BaseSeed, rf.Index, nil, true)
	after, err2 := ObserveIn(self, nil, rf.Engine, rf.BaseSeed, rf.Index, rf.Prior, true)
	if err1 != nil || err2 != nil {
		fmt.Fprintln(os.Stderr, "replay:", err1, err2)
		return 2
	}
	if alone.Observed == after.Observed {
		fmt.Println("run", rf.Index, "observes the same results alone and after its", len(rf.Prior), "prior runs")
		return 0
	}
	fmt.Printf("run %d observes different results in a fresh process and after %d earlier run(s) of the same process\n%s\n", rf.Index, len(rf.Prior), DiffOutcomes(alone, after))
	return 1
}

// DiffOutcomes names the first difference between the scenario logs of two
// executions of the same tape.
func DiffOutcomes(alone, after *Outcome) string {
	a, _ := json.MarshalIndent(alone.Scenario, "", " ")
	b, _ := json.MarshalIndent(after.Scenario, "", " ")
	la, lb := strings.Split(string(a), "\n"), strings.Split(string(b), "\n")
	for i := 0; i < len(la) && i < len(lb); i++ {
		if la[i] != lb[i] {
			return fmt.Sprintf("first difference (scenario line %d):\n  fresh process   : %s\n  after prior runs: %s", i, strings.TrimSpace(la[i]), strings.TrimSpace(lb[i]))
		}
	}
	return fmt.Sprintf("observed hashes differ (%016x vs %016x); scenario logs agree line by line up to the shorter one (%d vs %d lines)", alone.Observed, after.Observed, len(la), len(lb))
}

func runPriors(e Engine, rf *ReplayFile, prior []uint64) {
	for _, idx := range prior {
		RunOnce(e, NewTape(Mix(rf.BaseSeed, e.Name(), idx)), idx, false)
	}
}

// shrink: minimise the tape of a replay file in-process; rewrites the file.
func shrinkCmd(args []string, engines map[string]Engine) int {
	fs := flag.NewFlagSet("shrink", flag.ContinueOnError)
	file := fs.String("file", "", "")
	budget := fs.Duration("budget", 20*time.Second, "")
	if err := fs.Parse(args); err != nil {
		return 2
	}
	rf, err := loadReplay(*file)
	if err != nil {
		fmt.Fprintln(os.Stderr, "replay file:", err)
		return 2
	}
	e := engines[rf.Engine]
	if e == nil {
		return 2
	}
	if len(rf.Prior) > 0 {
		// process-level state is involved: an in-process shrink loop would
		// pollute itself. The driver minimises the prior list with fresh
		// processes instead; the tape is kept as recorded.
		fmt.Fprintln(os.Stderr, "shrink: replay depends on prior runs; tape left as recorded")
		return 0
	}
	still := func(t []uint32) bool {
		o := RunOnce(e, ReplayTape(rf.Seed, t), rf.Index, false)
		return o.Harness == "" && hasClass(o, rf.Class, rf.Signature) != nil
	}
	if !still(rf.Tape) {
		fmt.Fprintln(os.Stderr, "shrink: recorded tape does not reproduce class", rf.Class)
		return 2
	}
	min, tries := Shrink(rf.Tape, still, *budget)
	o := RunOnce(e, ReplayTape(rf.Seed, min), rf.Index, true)
	v := hasClass(o, rf.Class, rf.Signature)
	if v == nil {
		return 2
	}
	rf.Tape = min
	rf.Minimised = true
	rf.ShrinkTries = tries
	rf.Scenario = o.Scenario
	rf.Log = o.Log
	rf.Violation = v
	rf.Signature = v.Signature
	b, _ := json.MarshalIndent(rf, "", " ")
	if err := os.WriteFile(*file, append(b, '\n'), 0o644); err != nil {
		return 2
	}
	return 0
}

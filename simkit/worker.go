package simkit

import (
	"bufio"
	"encoding/json"
	"flag"
	"fmt"
	"os"
	"runtime/debug"
	"time"
)

// Engine is one simulated system + workload + oracle. Run must be a pure
// function of (code, tape).
type Engine interface {
	Name() string
	Run(t *Tape, o *Outcome, full bool)
}

// EngineFunc adapts a function.
type EngineFunc struct {
	N string
	F func(t *Tape, o *Outcome, full bool)
}

func (e EngineFunc) Name() string                          { return e.N }
func (e EngineFunc) Run(t *Tape, o *Outcome, full bool) { e.F(t, o, full) }

// RunOnce executes one run; panics escaping the engine are harness doubts
// unless the engine converted them into violations itself.
func RunOnce(e Engine, t *Tape, idx uint64, full bool) (o *Outcome) {
	o = NewOutcome(t.Seed)
	o.Index = idx
	defer func() {
		if r := recover(); r != nil {
			o.HarnessDoubt("engine panic: %v\n%s", r, debug.Stack())
		}
		o.Tape = t.Recorded()
	}()
	e.Run(t, o, full)
	return o
}

type Summary struct {
	Type         string         `json:"type"`
	Runs         int            `json:"runs"`
	Evals        int            `json:"evals"`
	Steps        int            `json:"steps"`
	NonTrivial   int            `json:"nontrivial"`
	Fingerprints []uint64       `json:"fingerprints"`
	Faults       map[string]int `json:"faults"`
	Probes       map[string]int `json:"probes"`
	TimedOut     bool           `json:"timed_out"`
}

type runLine struct {
	Type string   `json:"type"`
	Out  *Outcome `json:"out"`
}

// runs slower than this are named on stderr (VERIF_SLOW_MS overrides)
var slowRun = func() time.Duration {
	if v := os.Getenv("VERIF_SLOW_MS"); v != "" {
		var ms int
		fmt.Sscan(v, &ms)
		if ms > 0 {
			return time.Duration(ms) * time.Millisecond
		}
	}
	return 20 * time.Second
}()

// WorkerMain implements the "worker", "exec1" and "shrink" sub-commands shared
// by every harness binary.
func WorkerMain(args []string, engines map[string]Engine) int {
	if len(args) == 0 {
		fmt.Fprintln(os.Stderr, "usage: worker|exec1|shrink ...")
		return 2
	}
	switch args[0] {
	case "worker":
		return workerCmd(args[1:], engines)
	case "exec1":
		return exec1Cmd(args[1:], engines)
	case "shrink":
		return shrinkCmd(args[1:], engines)
	}
	fmt.Fprintln(os.Stderr, "unknown sub-command", args[0])
	return 2
}

func workerCmd(args []string, engines map[string]Engine) int {
	fs := flag.NewFlagSet("worker", flag.ContinueOnError)
	engine := fs.String("engine", "", "")
	base := fs.Uint64("base", 1, "")
	start := fs.Uint64("start", 0, "")
	stride := fs.Uint64("stride", 1, "")
	count := fs.Uint64("count", 1, "")
	deadline := fs.Int64("deadline", 0, "unix seconds; 0 = none")
	samples := fs.Int("samples", 0, "")
	full := fs.Bool("full", false, "emit every outcome with log (determinism self-test)")
	if err := fs.Parse(args); err != nil {
		return 2
	}
	e := engines[*engine]
	if e == nil {
		fmt.Fprintln(os.Stderr, "unknown engine", *engine)
		return 2
	}
	w := bufio.NewWriterSize(os.Stdout, 1<<16)
	defer w.Flush()
	enc := json.NewEncoder(w)
	sum := Summary{Type: "summary", Faults: map[string]int{}, Probes: map[string]int{}}
	seen := map[uint64]bool{}
	for k := uint64(0); k < *count; k++ {
		if *deadline != 0 && time.Now().Unix() >= *deadline {
			sum.TimedOut = true
			break
		}
		idx := *start + k**stride
		fmt.Fprintf(w, "b %d\n", idx)
		w.Flush() // the driver's watchdog and crash attribution rely on seeing this line
		seed := Mix(*base, e.Name(), idx)
		wantFull := *full || int(k) < *samples
		began := time.Now()
		o := RunOnce(e, NewTape(seed), idx, wantFull)
		if d := time.Since(began); d > slowRun {
			fmt.Fprintf(os.Stderr, "slow run: engine %s index %d took %v\n", e.Name(), idx, d.Round(time.Second))
		}
		sum.Runs++
		sum.Evals += o.Evals
		sum.Steps += o.Steps
		if o.NonTrivial {
			sum.NonTrivial++
			if !seen[o.Fingerprint] {
				seen[o.Fingerprint] = true
				sum.Fingerprints = append(sum.Fingerprints, o.Fingerprint)
			}
		}
		for k, v := range o.Faults {
			sum.Faults[k] += v
		}
		for k, v := range o.Probes {
			sum.Probes[k] += v
		}
		if wantFull || len(o.Violations) > 0 || o.Harness != "" {
			if !wantFull {
				o.Scenario = nil
				o.Log = nil
			}
			if !*full && len(o.Violations) == 0 && o.Harness == "" {
				o.Tape = nil
			}
			enc.Encode(runLine{"run", o})
			w.Flush()
		}
	}
	enc.Encode(sum)
	return 0
}

// ReplayFile is the on-disk form of one failing (or sample) run.
type ReplayFile struct {
	Property      string      `json:"property"`
	Engine        string      `json:"engine"`
	Class         string      `json:"class"`
	Signature     string      `json:"signature"`
	Seed          uint64      `json:"seed"`
	Index         uint64      `json:"index"`
	Tape          []uint32    `json:"tape"`
	Probabilistic bool        `json:"probabilistic,omitempty"`
	Scenario      any         `json:"scenario,omitempty"`
	Log           []string    `json:"log,omitempty"`
	Violation     *Violation  `json:"violation,omitempty"`
	Repo          any         `json:"repo,omitempty"`
	// Prior lists runs (by index; seeds derive from BaseSeed) that the same
	// worker process executed before the failing run and that are needed to
	// reproduce it: the violation depends on process-level state left behind
	// by earlier runs (itself a sign of hidden state in the code under test).
	Prior    []uint64 `json:"prior_runs,omitempty"`
	BaseSeed uint64   `json:"base_seed,omitempty"`
	Minimised     bool        `json:"minimised"`
	ShrinkTries   int         `json:"shrink_tries,omitempty"`
	Extra         interface{} `json:"extra,omitempty"`
}

func loadReplay(path string) (*ReplayFile, error) {
	b, err := os.ReadFile(path)
	if err != nil {
		return nil, err
	}
	var rf ReplayFile
	if err := json.Unmarshal(b, &rf); err != nil {
		return nil, err
	}
	return &rf, nil
}

func hasClass(o *Outcome, class string, sig ...string) *Violation {
	for i := range o.Violations {
		if o.Violations[i].Class == class && (len(sig) == 0 || sig[0] == "" || o.Violations[i].Signature == sig[0]) {
			return &o.Violations[i]
		}
	}
	return nil
}

// exec1: re-execute one tape from a replay file; prints the outcome as JSON.
// Exit 1 if the recorded class is reproduced, 0 if not, 2 on harness doubt.
func exec1Cmd(args []string, engines map[string]Engine) int {
	fs := flag.NewFlagSet("exec1", flag.ContinueOnError)
	file := fs.String("file", "", "")
	if err := fs.Parse(args); err != nil {
		return 2
	}
	rf, err := loadReplay(*file)
	if err != nil {
		fmt.Fprintln(os.Stderr, "replay file:", err)
		return 2
	}
	e := engines[rf.Engine]
	if e == nil {
		fmt.Fprintln(os.Stderr, "unknown engine", rf.Engine)
		return 2
	}
	tape := ReplayTape(rf.Seed, rf.Tape)
	if rf.Tape == nil {
		tape = NewTape(rf.Seed) // recorded by seed only (e.g. the worker process died)
	}
	runPriors(e, rf, rf.Prior)
	o := RunOnce(e, tape, rf.Index, true)
	b, _ := json.MarshalIndent(o, "", " ")
	os.Stdout.Write(b)
	os.Stdout.WriteString("\n")
	if o.Harness != "" {
		return 2
	}
	if rf.Class == "" {
		if len(o.Violations) > 0 {
			return 1
		}
		return 0
	}
	if hasClass(o, rf.Class, rf.Signature) != nil {
		return 1
	}
	return 0
}

func runPriors(e Engine, rf *ReplayFile, prior []uint64) {
	for _, idx := range prior {
		RunOnce(e, NewTape(Mix(rf.BaseSeed, e.Name(), idx)), idx, false)
	}
}

// shrink: minimise the tape of a replay file in-process; rewrites the file.
func shrinkCmd(args []string, engines map[string]Engine) int {
	fs := flag.NewFlagSet("shrink", flag.ContinueOnError)
	file := fs.String("file", "", "")
	budget := fs.Duration("budget", 20*time.Second, "")
	if err := fs.Parse(args); err != nil {
		return 2
	}
	rf, err := loadReplay(*file)
	if err != nil {
		fmt.Fprintln(os.Stderr, "replay file:", err)
		return 2
	}
	e := engines[rf.Engine]
	if e == nil {
		return 2
	}
	if len(rf.Prior) > 0 {
		// process-level state is involved: an in-process shrink loop would
		// pollute itself. The driver minimises the prior list with fresh
		// processes instead; the tape is kept as recorded.
		fmt.Fprintln(os.Stderr, "shrink: replay depends on prior runs; tape left as recorded")
		return 0
	}
	still := func(t []uint32) bool {
		o := RunOnce(e, ReplayTape(rf.Seed, t), rf.Index, false)
		return o.Harness == "" && hasClass(o, rf.Class, rf.Signature) != nil
	}
	if !still(rf.Tape) {
		fmt.Fprintln(os.Stderr, "shrink: recorded tape does not reproduce class", rf.Class)
		return 2
	}
	min, tries := Shrink(rf.Tape, still, *budget)
	o := RunOnce(e, ReplayTape(rf.Seed, min), rf.Index, true)
	v := hasClass(o, rf.Class, rf.Signature)
	if v == nil {
		return 2
	}
	rf.Tape = min
	rf.Minimised = true
	rf.ShrinkTries = tries
	rf.Scenario = o.Scenario
	rf.Log = o.Log
	rf.Violation = v
	rf.Signature = v.Signature
	b, _ := json.MarshalIndent(rf, "", " ")
	if err := os.WriteFile(*file, append(b, '\n'), 0o644); err != nil {
		return 2
	}
	return 0
}

package simkit

import "time"

// Shrink minimises a failing tape. still(t) must report whether the tape t
// still produces the violation of interest (same class). The result is the
// smallest tape found within the budget; it always satisfies still().
func Shrink(tape []uint32, still func([]uint32) bool, budget time.Duration) ([]uint32, int) {
	deadline := time.Now().Add(budget)
	cur := append([]uint32(nil), tape...)
	tries := 0
	try := func(c []uint32) bool {
		if time.Now().After(deadline) {
			return false
		}
		tries++
		if still(c) {
			cur = append(cur[:0:0], c...)
			return true
		}
		return false
	}
	// drop trailing values first (cheap, big win)
	for len(cur) > 0 && time.Now().Before(deadline) {
		n := len(cur) / 2
		if n == 0 {
			n = 1
		}
		if !try(cur[:len(cur)-n]) {
			break
		}
	}
	improved := true
	for improved && time.Now().Before(deadline) {
		improved = false
		// delete blocks
		for size := 32; size >= 1; size /= 2 {
			for i := 0; i+size <= len(cur); {
				c := append(append([]uint32(nil), cur[:i]...), cur[i+size:]...)
				if try(c) {
					improved = true
				} else {
					i++
				}
				if time.Now().After(deadline) {
					break
				}
			}
		}
		// zero blocks
		for size := 8; size >= 1; size /= 2 {
			for i := 0; i+size <= len(cur); i++ {
				allZero := true
				for j := i; j < i+size; j++ {
					if cur[j] != 0 {
						allZero = false
					}
				}
				if allZero {
					continue
				}
				c := append([]uint32(nil), cur...)
				for j := i; j < i+size; j++ {
					c[j] = 0
				}
				if try(c) {
					improved = true
				}
				if time.Now().After(deadline) {
					break
				}
			}
		}
		// reduce single values
		for i := 0; i < len(cur); i++ {
			for cur[i] > 0 {
				c := append([]uint32(nil), cur...)
				c[i] = cur[i] / 2
				if try(c) {
					improved = true
					continue
				}
				c[i] = cur[i] - 1
				if try(c) {
					improved = true
					continue
				}
				break
			}
			if time.Now().After(deadline) {
				break
			}
		}
		// trailing zeros are implicit
		for len(cur) > 0 && cur[len(cur)-1] == 0 {
			cur = cur[:len(cur)-1]
		}
	}
	return cur, tries
}

package simkit

import (
	"encoding/json"
	"fmt"
	"hash/fnv"
	"sort"
)

// Violation is one oracle failure observed in a run.
type Violation struct {
	Property  string `json:"property"`
	Class     string `json:"class"`     // oracle that failed, e.g. "I1-held-slice-mutated"
	Signature string `json:"signature"` // specific shape, matched against known_findings.json
	Detail    string `json:"detail"`
}

// Outcome is everything a run reports. It contains no wall-clock data, so that
// two executions of the same tape can be compared byte for byte.
type Outcome struct {
	Seed        uint64         `json:"seed"`
	Index       uint64         `json:"index"`
	Violations  []Violation    `json:"violations,omitempty"`
	Harness     string         `json:"harness,omitempty"` // harness doubt: exit 2, never a VIOLATION
	// TimingDependent: the run involved a decision the tape does not own (the
	// code under test blocked in a real primitive and the scheduler had to
	// take the turn over after a timeout). Such runs are judged but excluded
	// from the byte-for-byte determinism self-test.
	TimingDependent bool `json:"timing_dependent,omitempty"`
	Fingerprint uint64         `json:"fingerprint"`
	// Observed folds everything the run saw the code under test return (see
	// Observe). Two executions of one tape must agree on it; an execution that
	// follows other runs in the same process must agree with a fresh process.
	Observed uint64 `json:"observed,omitempty"`
	NonTrivial  bool           `json:"nontrivial"`
	Faults      map[string]int `json:"faults,omitempty"`
	Probes      map[string]int `json:"probes,omitempty"`
	Steps       int            `json:"steps"`
	Evals       int            `json:"evals"` // executions of code under test inside this run
	Scenario    any            `json:"scenario,omitempty"`
	Log         []string       `json:"log,omitempty"`
	Tape        []uint32       `json:"tape,omitempty"`
}

func NewOutcome(seed uint64) *Outcome {
	return &Outcome{Seed: seed, Faults: map[string]int{}, Probes: map[string]int{}}
}

func (o *Outcome) Fault(kind string)      { o.Faults[kind]++ }
func (o *Outcome) FaultN(kind string, n int) { o.Faults[kind] += n }
func (o *Outcome) Probe(name string)      { o.Probes[name]++ }
func (o *Outcome) ProbeN(name string, n int) { o.Probes[name] += n }

func (o *Outcome) Violate(prop, class, sig, format string, args ...any) {
	d := fmt.Sprintf(format, args...)
	if len(d) > 1500 {
		d = d[:1500] + "…"
	}
	// keep reports bounded
	if len(o.Violations) < 20 {
		o.Violations = append(o.Violations, Violation{prop, class, sig, d})
	}
}

// Observe folds one observation (a rendered result of the code under test)
// into the run's Observed hash, order-sensitively.
func (o *Outcome) Observe(parts ...string) {
	h := fnv.New64a()
	var b [8]byte
	for i := 0; i < 8; i++ {
		b[i] = byte(o.Observed >> (8 * i))
	}
	h.Write(b[:])
	for _, p := range parts {
		h.Write([]byte(p))
		h.Write([]byte{0})
	}
	o.Observed = h.Sum64()
}

func (o *Outcome) HarnessDoubt(format string, args ...any) {
	if o.Harness == "" {
		o.Harness = fmt.Sprintf(format, args...)
	}
}

func (o *Outcome) Logf(format string, args ...any) {
	if len(o.Log) < 400 {
		o.Log = append(o.Log, fmt.Sprintf(format, args...))
	}
}

// Hash64 hashes strings into a fingerprint.
func Hash64(parts ...string) uint64 {
	h := fnv.New64a()
	for _, p := range parts {
		h.Write([]byte(p))
		h.Write([]byte{0})
	}
	return h.Sum64()
}

// Canonical renders the outcome deterministically (maps sorted by encoding/json).
func (o *Outcome) Canonical() string {
	b, _ := json.Marshal(o)
	return string(b)
}

// SortedKeys returns the sorted keys of a string-keyed map.
func SortedKeys[V any](m map[string]V) []string {
	ks := make([]string, 0, len(m))
	for k := range m {
		ks = append(ks, k)
	}
	sort.Strings(ks)
	return ks
}

// Package simkit is the simulator core: one choice tape decides every
// generated input, delivery schedule, fault and context switch of a run.
package simkit

// SplitMix64 is the only PRNG of the framework.
type SplitMix64 struct{ s uint64 }

//go:norace
func (r *SplitMix64) Next() uint64 {
	r.s += 0x9e3779b97f4a7c15
	z := r.s
	z = (z ^ (z >> 30)) * 0xbf58476d1ce4e5b9
	z = (z ^ (z >> 27)) * 0x94d049bb133111eb
	return z ^ (z >> 31)
}

// Mix derives a run seed from the base seed, an engine tag and a run index.
func Mix(base uint64, tag string, idx uint64) uint64 {
	h := base ^ 0x51ed270b27b4f3a5
	for i := 0; i < len(tag); i++ {
		h = (h ^ uint64(tag[i])) * 0x100000001b3
	}
	r := SplitMix64{s: h ^ (idx * 0x9e3779b97f4a7c15)}
	r.Next()
	return r.Next()
}

// Tape is the single source of nondeterminism of one simulated run. In record
// mode values come from the PRNG; in replay mode they come from the recorded
// values (reduced modulo the requested bound) and 0 once those are exhausted,
// so that a shortened tape still denotes a (simpler) run.
type Tape struct {
	Seed     uint64
	rng      SplitMix64
	rec      []uint32
	replay   []uint32
	replayOn bool
	pos      int
}

func NewTape(seed uint64) *Tape {
	return &Tape{Seed: seed, rng: SplitMix64{s: seed}}
}

func ReplayTape(seed uint64, vals []uint32) *Tape {
	return &Tape{Seed: seed, replay: vals, replayOn: true}
}

//go:norace
func (t *Tape) raw() uint32 {
	var v uint32
	if t.replayOn {
		if t.pos < len(t.replay) {
			v = t.replay[t.pos]
		}
	} else {
		v = uint32(t.rng.Next() >> 32)
	}
	t.pos++
	return v
}

// Draw returns a value in [0,n). n<=1 consumes nothing.
//go:norace
func (t *Tape) Draw(n int) int {
	if n <= 1 {
		return 0
	}
	v := int(t.raw() % uint32(n))
	t.rec = append(t.rec, uint32(v))
	return v
}

// Range returns a value in [lo,hi].
//go:norace
func (t *Tape) Range(lo, hi int) int {
	if hi <= lo {
		return lo
	}
	return lo + t.Draw(hi-lo+1)
}

// Bool is true with probability num/den. 0 on the tape means false, so that
// shrinking turns features and faults off.
//go:norace
func (t *Tape) Bool(num, den int) bool {
	if num <= 0 {
		return false
	}
	if num >= den {
		return true
	}
	return t.Draw(den) >= den-num
}

// Pick returns an index with the given relative weights; index 0 is the
// simplest choice.
//go:norace
func (t *Tape) Pick(weights ...int) int {
	total := 0
	for _, w := range weights {
		total += w
	}
	if total <= 0 {
		return 0
	}
	v := t.Draw(total)
	for i, w := range weights {
		if v < w {
			return i
		}
		v -= w
	}
	return len(weights) - 1
}

// Geo draws a small non-negative integer, biased to small values, <= max.
//go:norace
func (t *Tape) Geo(max int) int {
	n := 0
	for n < max && t.Bool(1, 2) {
		n++
	}
	return n
}

func (t *Tape) Pos() int { return t.pos }

// Recorded returns the normalised values drawn so far (replayable).
func (t *Tape) Recorded() []uint32 {
	out := make([]uint32, len(t.rec))
	copy(out, t.rec)
	return out
}

// Fork derives an independent tape for a sub-activity (only in record mode the
// child is random; in replay mode the child replays from the same list, which
// is why engines use Fork only at a fixed point of the run).
func (t *Tape) ForkSeed() uint64 {
	hi := uint64(t.Draw(1 << 30))
	lo := uint64(t.Draw(1 << 30))
	return hi<<30 | lo
}

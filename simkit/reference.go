package simkit

import (
	"fmt"
	"os"
	"os/exec"
	"strings"
	"sync"
)

// Referencer is implemented by engines that own a fixed battery of
// observations whose value must not depend on what the process did before.
// Reference(i) is evaluated in a FRESH process (sub-command "reference") and
// is therefore, by construction, free of any history.
type Referencer interface {
	Reference(item int) string
}

var refMu sync.Mutex
var refCache = map[string]string{}

// FreshReference returns Reference(item) of the named engine as computed by a
// fresh process of this very binary (cached per process).
func FreshReference(engine string, item int) (string, error) {
	key := fmt.Sprintf("%s/%d", engine, item)
	refMu.Lock()
	defer refMu.Unlock()
	if v, ok := refCache[key]; ok {
		return v, nil
	}
	self, err := os.Executable()
	if err != nil {
		return "", err
	}
	cmd := exec.Command(self, "reference", "--engine", engine, "--item", fmt.Sprint(item))
	cmd.Env = os.Environ()
	out, err := cmd.Output()
	if err != nil {
		return "", fmt.Errorf("reference %s: %v", key, err)
	}
	v := strings.TrimSuffix(string(out), "\n")
	refCache[key] = v
	return v, nil
}

#!/bin/bash
# Verdict-only re-run of the checks against a kept seeded change (patch applied
# in a throw-away worktree of /repo; the demonstration is not re-run, see
# try_seeded.sh / recheck_seeded.sh for the full confirmation). Updates the
# "verif" list of seeded/<id>/meta.json. Safe to run several at once.
#   tools/rerun_seeded.sh <id> <checks...>
set -u
ID="$1"; shift
VERIF_DIR="$(cd "$(dirname "$0")/.." && pwd)"
SD="$VERIF_DIR/seeded/$ID"
[ -f "$SD/patch.diff" ] || { echo "$ID: not kept"; exit 2; }
WT="/tmp/rs-$$-$ID"
git -C /repo worktree add --detach "$WT" HEAD -q || exit 2
trap 'git -C /repo worktree remove --force "$WT" 2>/dev/null' EXIT
( cd "$WT" && git apply "$SD/patch.diff" ) || { echo "$ID: patch does not apply"; exit 2; }
res="$(mktemp)"
for c in "$@"; do
  out="$(VERIF_SHRINK_S=2 VERIF_REPO="$WT" "$VERIF_DIR/check" "$c" quick 2>&1)"; rc=$?
  sig="$(echo "$out" | grep -m3 -E 'class=|^HARNESS' | sed 's/^ *//' | tr '\n' ';' | cut -c1-300)"
  echo "$ID $c quick: exit $rc  $sig"
  printf '%s\t%s\t%s\n' "$c" "$rc" "$sig" >> "$res"
done
python3 - "$SD/meta.json" "$res" <<'PY'
import json,sys
p,res=sys.argv[1:3]
m=json.load(open(p))
old={e["check"]:e for e in m.get("verif",[])}
for line in open(res,errors="replace"):
    f=line.rstrip("\n").split("\t")
    if len(f)>=3: old[f[0]]={"check":f[0],"quick_exit":int(f[1]),"first_classes":f[2]}
m["verif"]=[old[k] for k in sorted(old)]
json.dump(m,open(p,"w"),indent=1,ensure_ascii=False)
PY
rm -f "$res"

#!/bin/bash
# Re-runs the checks against seeded changes kept in /verif/seeded/<id>/ whose
# scratch worktree is gone: re-creates a worktree of /repo at the path the
# demonstration expects (taken from meta.json), restores SEEDED/<n>/ from the
# kept copy, calls try_seeded.sh / try_preserving.sh, and removes the worktree.
#   tools/recheck_seeded.sh <id> <checks...>
set -u
ID="$1"; shift
VERIF_DIR="$(cd "$(dirname "$0")/.." && pwd)"
SD="$VERIF_DIR/seeded/$ID"
[ -f "$SD/patch.diff" ] || { echo "$ID: not kept"; exit 2; }
WT="$(python3 - "$SD/meta.json" <<'PY'
import json,re,sys
m=json.load(open(sys.argv[1]))
txt=json.dumps(m)
r=re.search(r'/tmp/wt[0-9]*-C[0-9][0-9]',txt)
print(r.group(0) if r else '')
PY
)"
[ -n "$WT" ] || { echo "$ID: cannot find the worktree path in meta.json"; exit 2; }
N="${ID##*-}"
made=0
if [ ! -d "$WT" ]; then git -C /repo worktree add --detach "$WT" HEAD -q || exit 2; made=1; fi
mkdir -p "$WT/SEEDED/$N"
cp "$SD/patch.diff" "$SD/meta.json" "$WT/SEEDED/$N/"
rm -rf "$WT/SEEDED/$N/demo"; [ -d "$SD/demo" ] && cp -r "$SD/demo" "$WT/SEEDED/$N/demo"
case "$ID" in
  keep-*) "$VERIF_DIR/tools/try_preserving.sh" "$WT" "$N" "$ID" "$@" ;;
  *)      "$VERIF_DIR/tools/try_seeded.sh" "$WT" "$N" "$ID" "$@" ;;
esac
rc=$?
if [ $made = 1 ]; then git -C /repo worktree remove --force "$WT"; fi
exit $rc

#!/bin/bash
# False-alarm probe: a change that PRESERVES the property (written by a
# sub-agent) must not raise an alarm.
#   tools/try_preserving.sh <worktree> <n> <id> <checks...>
# Confirms the patch applies and the repository's tests pass with it, runs the
# checks (quick) with VERIF_REPO pointing at the patched worktree and records
# the verdicts in /verif/seeded/<id>/meta.json. Exit codes other than 0 are
# kept with the first lines of the report for triage (genuine break of the
# property by the agent's change vs. over-demanding check).
set -u
WT="$1"; N="$2"; ID="$3"; shift 3
VERIF_DIR="$(cd "$(dirname "$0")/.." && pwd)"
SD="$WT/SEEDED/$N"
export GOFLAGS=-mod=mod GOPROXY=off GOSUMDB=off GOTOOLCHAIN=local
cd "$WT" || exit 2
git checkout -q -- . 2>/dev/null; git clean -fdq -e SEEDED 2>/dev/null
[ -f "$SD/patch.diff" ] || { echo "$ID: no patch"; exit 2; }
git apply "$SD/patch.diff" || { echo "$ID: patch does not apply"; exit 2; }
build="ok"; (go build ./... >/dev/null 2>&1) || build="FAIL"
tests="pass"; (go test -vet=off -count=1 ./... >/tmp/keep-$ID-tests.log 2>&1) || tests="FAIL"
echo "$ID: build=$build repo-tests=$tests"
results="/tmp/keep-$ID-results.tsv"; : > "$results"
for c in "$@"; do
  out="$(VERIF_REPO="$WT" "$VERIF_DIR/check" "$c" quick 2>&1)"; rc=$?
  sig="$(echo "$out" | grep -m3 -E 'class=|^HARNESS' | sed 's/^ *//' | tr '\n' ';')"
  echo "   $c quick: exit $rc  $(echo "$sig" | cut -c1-300)"
  if [ $rc -ne 0 ]; then echo "$out" | grep -E -A6 'class=|^HARNESS' | head -40 > "/tmp/keep-$ID-$c.report"; fi
  printf '%s\t%s\t%s\n' "$c" "$rc" "$(echo "$sig" | cut -c1-300)" >> "$results"
done
git checkout -q -- .; git clean -fdq -e SEEDED
if [ "$build" = ok ] && [ "$tests" = pass ]; then
  mkdir -p "$VERIF_DIR/seeded/$ID"
  cp "$SD/patch.diff" "$VERIF_DIR/seeded/$ID/patch.diff"
  python3 - "$SD/meta.json" "$VERIF_DIR/seeded/$ID/meta.json" "$ID" "$results" "$WT" <<'PYEOF'
import json,sys
src,dst,sid,res,wt=sys.argv[1:6]
try: m=json.load(open(src))
except Exception as e: m={"note":"agent meta.json unreadable: %s"%e}
m["seeded_id"]=sid
m["kind"]="property-preserving change (false-alarm probe): the checks must NOT raise an alarm"
m["confirmed_by_me"]={"patch_applies_on_clean_HEAD":True,"repo_builds":True,"repo_tests_pass_with_patch":True,"how":"tools/try_preserving.sh in the agent's scratch worktree %s"%wt}
m["verif"]=[]
for line in open(res, errors="replace"):
    f=line.rstrip("\n").split("\t")
    if len(f)>=3: m["verif"].append({"check":f[0],"quick_exit":int(f[1]),"first_lines":f[2]})
json.dump(m,open(dst,"w"),indent=1,ensure_ascii=False)
PYEOF
  echo "   kept as seeded/$ID"
else
  echo "   NOT KEPT (does not build / repo tests fail)"
fi

#!/bin/bash
# Validates one seeded change produced by a sub-agent and runs the checks
# against it (in the agent's scratch worktree, via VERIF_REPO; /repo is not
# touched).
#   tools/try_seeded.sh <worktree> <n> <seeded-id> <checks...>
# Confirms: patch applies on clean HEAD; repo builds and its tests pass with the
# patch; the demonstration fails with the patch and passes without it. Then
# copies patch.diff, demo/ and meta.json to /verif/seeded/<seeded-id>/ and
# appends what the checks said to meta.json ("verif" key).
set -u
WT="$1"; N="$2"; ID="$3"; shift 3
VERIF_DIR="$(cd "$(dirname "$0")/.." && pwd)"
SD="$WT/SEEDED/$N"
export GOFLAGS=-mod=mod GOPROXY=off GOSUMDB=off GOTOOLCHAIN=local
cd "$WT" || exit 2
git checkout -q -- . 2>/dev/null; git clean -fdq -e SEEDED 2>/dev/null
[ -f "$SD/patch.diff" ] || { echo "$ID: no patch"; exit 2; }
# demo without the patch
( cd "$SD/demo" && bash ./run.sh ) >/tmp/seed-$ID-demo-clean.log 2>&1; clean_rc=$?
git apply "$SD/patch.diff" || { echo "$ID: patch does not apply"; exit 2; }
build="ok"; (go build ./... >/dev/null 2>&1) || build="FAIL"
tests="pass"; (go test -vet=off -count=1 ./... >/tmp/seed-$ID-tests.log 2>&1) || tests="FAIL"
( cd "$SD/demo" && bash ./run.sh ) >/tmp/seed-$ID-demo-patched.log 2>&1; patched_rc=$?
echo "$ID: build=$build repo-tests=$tests demo(clean)=$clean_rc demo(patched)=$patched_rc"
results="/tmp/seed-$ID-results.tsv"; : > "$results"
for c in "$@"; do
  out="$(VERIF_REPO="$WT" "$VERIF_DIR/check" "$c" quick 2>&1)"; rc=$?
  sig="$(echo "$out" | grep -m3 'class=' | sed 's/^ *//' | tr '\n' ';')"
  echo "   $c quick: exit $rc  $sig"
  if [ $rc -ne 1 ] && [ "${THOROUGH_ON_MISS:-0}" = 1 ]; then
    out="$(VERIF_REPO="$WT" "$VERIF_DIR/check" "$c" thorough 2>&1)"; rc2=$?
    sig="$(echo "$out" | grep -m3 'class=' | sed 's/^ *//' | tr '\n' ';')"
    echo "   $c thorough: exit $rc2  $sig"
    printf '%s\t%s\t%s\t%s\n' "$c" "$rc" "$rc2" "$(echo "$sig" | cut -c1-300)" >> "$results"
  else
    printf '%s\t%s\t%s\t%s\n' "$c" "$rc" "-" "$(echo "$sig" | cut -c1-300)" >> "$results"
  fi
done
git checkout -q -- .; git clean -fdq -e SEEDED
if [ "$build" = ok ] && [ "$tests" = pass ] && [ $clean_rc -eq 0 ] && [ $patched_rc -ne 0 ]; then
  mkdir -p "$VERIF_DIR/seeded/$ID"
  cp "$SD/patch.diff" "$VERIF_DIR/seeded/$ID/patch.diff"
  rm -rf "$VERIF_DIR/seeded/$ID/demo"; cp -r "$SD/demo" "$VERIF_DIR/seeded/$ID/demo"
  find "$VERIF_DIR/seeded/$ID/demo" -type f \( -name 'xsel' -o -name '*.test' \) -size +1M -delete 2>/dev/null
  python3 - "$SD/meta.json" "$VERIF_DIR/seeded/$ID/meta.json" "$ID" "$results" "$WT" <<'EOF'
import json,sys
src,dst,sid,res,wt=sys.argv[1:6]
try: m=json.load(open(src))
except Exception as e: m={"note":"agent meta.json unreadable: %s"%e}
m["seeded_id"]=sid
m["confirmed_by_me"]={"patch_applies_on_clean_HEAD":True,"repo_builds":True,"repo_tests_pass_with_patch":True,"demo_exit_without_patch":0,"demo_fails_with_patch":True,"how":"tools/try_seeded.sh in the agent's scratch worktree %s (checks run with VERIF_REPO pointing at the patched worktree)"%wt}
m["verif"]=[]
for line in open(res, errors="replace"):
    f=line.rstrip("\n").split("\t")
    if len(f)>=4:
        e={"check":f[0],"quick_exit":int(f[1]),"first_classes":f[3]}
        if f[2]!="-": e["thorough_exit"]=int(f[2])
        m["verif"].append(e)
json.dump(m,open(dst,"w"),indent=1,ensure_ascii=False)
EOF
  echo "   kept as seeded/$ID"
else
  echo "   NOT KEPT (claims not confirmed)"
fi

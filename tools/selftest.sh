#!/bin/bash
# Sensitivity self-test (not a registered command): applies each patch of a
# list to /repo's working tree, confirms that /repo still builds and passes its
# own tests, runs the named checks (quick tier) and requires a VIOLATION
# (exit 1) whose replay file reproduces; /repo is restored after every patch.
#
#   tools/selftest.sh [LISTFILE]      default: mutants/LIST
#   list line:  <patch file relative to the list>|<checks, space separated>|<comment>
set -u
VERIF_DIR="$(cd "$(dirname "$0")/.." && pwd)"
# --worktree: apply each patch in a throw-away git worktree of /repo and point
# the checks at it (VERIF_REPO), so that /repo itself stays untouched (needed
# while other runs read /repo)
if [ "${1:-}" = "--worktree" ]; then
  shift
  LIST="${1:-$VERIF_DIR/mutants/LIST}"; DIR="$(dirname "$LIST")"
  export GOFLAGS=-mod=mod GOPROXY=off GOSUMDB=off GOTOOLCHAIN=local
  pass=0; fail=0
  while IFS='|' read -r patch checks comment; do
    [ -z "$patch" ] && continue
    case "$patch" in \#*) continue;; esac
    WT="/tmp/selftest-$$"
    git -C /repo worktree add --detach "$WT" HEAD -q || exit 2
    if ! git -C "$WT" apply "$DIR/$patch" 2>/dev/null; then echo "SKIP  $patch (does not apply)"; git -C /repo worktree remove --force "$WT"; continue; fi
    tests="pass"; (cd "$WT" && go build ./... >/dev/null 2>&1 && go test -vet=off -count=1 ./... >/dev/null 2>&1) || tests="FAIL"
    for c in $checks; do
      out="$(VERIF_REPO="$WT" "$VERIF_DIR/check" "$c" quick 2>&1)"; rc=$?
      rep="$(echo "$out" | grep -m1 '^VIOLATION' | sed 's/.*replay=//')"
      if [ $rc -eq 1 ] && [ -n "$rep" ]; then
        VERIF_REPO="$WT" "$VERIF_DIR/check" "$c" --replay "$rep" >/dev/null 2>&1; rrc=$?
        if [ $rrc -eq 1 ]; then echo "CAUGHT $patch by $c (repo tests: $tests; replay reproduces) — $comment"; pass=$((pass+1));
        else echo "CAUGHT-BUT-REPLAY-rc=$rrc $patch by $c (repo tests: $tests) — $comment"; fail=$((fail+1)); fi
      else
        echo "MISSED $patch by $c (exit $rc; repo tests: $tests) — $comment"; fail=$((fail+1))
      fi
    done
    git -C /repo worktree remove --force "$WT"
  done < "$LIST"
  echo "selftest: caught=$pass missed-or-unreplayable=$fail"
  [ $fail -eq 0 ]; exit $?
fi
LIST="${1:-$VERIF_DIR/mutants/LIST}"
DIR="$(dirname "$LIST")"
export GOFLAGS=-mod=mod GOPROXY=off GOSUMDB=off GOTOOLCHAIN=local
if [ -n "$(git -C /repo status --porcelain)" ]; then echo "selftest: /repo working tree is not clean"; exit 2; fi
pass=0; fail=0
while IFS='|' read -r patch checks comment; do
  [ -z "$patch" ] && continue
  case "$patch" in \#*) continue;; esac
  p="$DIR/$patch"
  if ! git -C /repo apply "$p" 2>/dev/null; then echo "SKIP  $patch (does not apply)"; continue; fi
  if ! (cd /repo && go build ./... >/dev/null 2>&1); then echo "SKIP  $patch (does not compile)"; git -C /repo checkout -- .; continue; fi
  tests="pass"
  (cd /repo && go test -vet=off -count=1 ./... >/dev/null 2>&1) || tests="FAIL"
  for c in $checks; do
    out="$("$VERIF_DIR/check" "$c" quick 2>&1)"; rc=$?
    rep="$(echo "$out" | grep -m1 '^VIOLATION' | sed 's/.*replay=//')"
    if [ $rc -eq 1 ] && [ -n "$rep" ]; then
      "$VERIF_DIR/check" "$c" --replay "$rep" >/dev/null 2>&1; rrc=$?
      if [ $rrc -eq 1 ]; then echo "CAUGHT $patch by $c (repo tests: $tests; replay reproduces) — $comment"; pass=$((pass+1));
      else echo "CAUGHT-BUT-REPLAY-rc=$rrc $patch by $c (repo tests: $tests) — $comment"; fail=$((fail+1)); fi
    else
      echo "MISSED $patch by $c (exit $rc; repo tests: $tests) — $comment"; fail=$((fail+1))
    fi
  done
  git -C /repo checkout -- .
  git -C /repo clean -fdq
done < "$LIST"
echo "selftest: caught=$pass missed-or-unreplayable=$fail"
[ $fail -eq 0 ]

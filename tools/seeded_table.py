#!/usr/bin/env python3
"""Regenerates seeded/README.md from seeded/*/meta.json."""
import json, glob, os
HERE = os.path.dirname(os.path.dirname(os.path.abspath(__file__)))
rows = []
for f in sorted(glob.glob(os.path.join(HERE, "seeded", "*", "meta.json"))):
    m = json.load(open(f))
    sid = m.get("seeded_id", os.path.basename(os.path.dirname(f)))
    caught = [v["check"] for v in m.get("verif", []) if v.get("quick_exit") == 1 or v.get("thorough_exit") == 1]
    missed = [v["check"] for v in m.get("verif", []) if not (v.get("quick_exit") == 1 or v.get("thorough_exit") == 1)]
    first = "; ".join(v.get("first_classes", "").split(";")[0] for v in m.get("verif", []) if v.get("quick_exit") == 1)
    rows.append((sid, (m.get("summary") or "")[:160].replace("|", "/").replace("\n", " "), (m.get("needs") or "")[:160].replace("|", "/").replace("\n", " "), ", ".join(caught) or "-", ", ".join(missed) or "-", first[:140].replace("|", "/")))
out = ["# Seeded changes (written independently by sub-agents) and which checks catch them", "",
       "Each directory holds `patch.diff` (against the /repo HEAD of the time), the agent's demonstration (`demo/run.sh` exits non-zero iff the property is broken) and `meta.json` (what the change needs in order to manifest, what was confirmed, what each check said: exit 1 = VIOLATION). Regenerate with `tools/try_seeded.sh` + `tools/seeded_table.py`.", "",
       "| id | change | needs | caught by (quick) | ran without alarm | first violation class |", "|---|---|---|---|---|---|"]
for r in rows:
    out.append("| %s | %s | %s | %s | %s | %s |" % r)
n = len(rows); c = sum(1 for r in rows if r[3] != "-")
out += ["", "%d of %d seeded changes are caught by at least one check." % (c, n), ""]
open(os.path.join(HERE, "seeded", "README.md"), "w").write("\n".join(out))
print("%d/%d caught" % (c, n))

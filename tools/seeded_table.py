#!/usr/bin/env python3
"""Regenerates seeded/README.md from seeded/*/meta.json."""
import json, glob, os
HERE = os.path.dirname(os.path.dirname(os.path.abspath(__file__)))
brk, keep = [], []
def clean(s, n=170): return (s or "").replace("|", "/").replace("\n", " ")[:n]
for f in sorted(glob.glob(os.path.join(HERE, "seeded", "*", "meta.json"))):
    m = json.load(open(f))
    sid = m.get("seeded_id", os.path.basename(os.path.dirname(f)))
    ver = m.get("verif", [])
    if sid.startswith("keep-"):
        alarms = [v["check"] + ":exit%d" % v["quick_exit"] for v in ver if v.get("quick_exit") != 0]
        keep.append((sid, clean(m.get("summary")), clean(m.get("observable_details_that_changed")), ", ".join(v["check"] for v in ver) or "-", ", ".join(alarms) or "none"))
    else:
        caught = [v["check"] for v in ver if v.get("quick_exit") == 1 or v.get("thorough_exit") == 1]
        quiet = [v["check"] for v in ver if not (v.get("quick_exit") == 1 or v.get("thorough_exit") == 1)]
        first = "; ".join(v.get("first_classes", "").split(";")[0] for v in ver if v.get("quick_exit") == 1)
        brk.append((sid, clean(m.get("summary")), clean(m.get("needs")), ", ".join(caught) or "-", ", ".join(quiet) or "-", clean(first, 140)))
out = ["# Seeded changes written independently by sub-agents, and what the checks said", "",
       "Each directory holds `patch.diff` (against the /repo HEAD of the time) and `meta.json` (what the change does, what it needs in order to manifest, what was confirmed, what each check said). Breaking changes also hold the agent's demonstration (`demo/run.sh` exits non-zero iff the property is broken). Regenerate with `tools/try_seeded.sh` / `tools/try_preserving.sh` and `tools/seeded_table.py`.", "",
       "## Changes that BREAK a property (compile, pass the repository's tests, need something specific to manifest)", "",
       "| id | change | needs | caught by (quick tier) | ran without alarm | first violation class |", "|---|---|---|---|---|---|"]
for r in brk: out.append("| %s | %s | %s | %s | %s | %s |" % r)
c = sum(1 for r in brk if r[3] != "-")
out += ["", "%d of %d breaking changes are caught by at least one check." % (c, len(brk)), "",
        "## Changes that PRESERVE the property (false-alarm probes: refactorings, optimisations, changed details the statement leaves open)", "",
        "| id | change | observable details that changed | checks run | alarms |", "|---|---|---|---|---|"]
for r in keep: out.append("| %s | %s | %s | %s | %s |" % r)
k = sum(1 for r in keep if r[4] == "none")
out += ["", "%d of %d property-preserving changes pass every check that was run against them." % (k, len(keep)), ""]
open(os.path.join(HERE, "seeded", "README.md"), "w").write("\n".join(out))
print("%d/%d breaking caught; %d/%d preserving quiet" % (c, len(brk), k, len(keep)))

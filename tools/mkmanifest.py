#!/usr/bin/env python3
"""Writes /verif/MANIFEST.json from the table below (kept in one place so the
manifest stays valid while checks are added)."""
import json, os, sys

HERE = os.path.dirname(os.path.dirname(os.path.abspath(__file__)))

NA_COMMON = "pure function of its inputs: no stream, clock, schedule, fault, history or second party is on its path, so deterministic simulation has nothing to decide (DESIGN.md §7)"

NOT_APPLICABLE = {
    "C01": "axis/node-test selection is a pure function of (tree, context node, step); " + NA_COMMON,
    "C02": "predicate position/size is a pure function of (tree, expression); " + NA_COMMON,
    "C03": "output-shape invariants and union laws of a pure function; " + NA_COMMON,
    "C04": "value conversions are pure functions of a double/string/node-set; " + NA_COMMON,
    "C05": "comparison operators are a pure function of two operand values; " + NA_COMMON,
    "C06": "arithmetic is a pure function of doubles (its never-panics clause is exercised by C15's engine, not claimed here); " + NA_COMMON,
    "C07": "string functions are pure functions of strings and doubles; " + NA_COMMON,
    "C08": "parser acceptance/structure is a pure function of the expression string (BuildExpr determinism is in C13, totality in C15); " + NA_COMMON,
    "C11": "name resolution is a pure function of (bindings, document, expression); callbacks are invoked synchronously and deterministically; " + NA_COMMON,
    "C12": "node functions are pure functions of (document, context node, argument); " + NA_COMMON,
    "C18": "composition law between separately evaluated pure queries (history dependence is C13); " + NA_COMMON,
    "C19": "reflection-driven conversion is a pure function of (result, target type, bindings); panics on bad targets are covered by C15; " + NA_COMMON,
}

PENDING = {k: "not claimed yet: DESIGN.md plans a check for this property but it is not built in this commit" for k in []}

CHECKS = {
    "C09": dict(
        engine="stream-xml", category="fault_enumeration", design_ref="§6.1",
        technique="deterministic simulation of the io.Reader seam: seeded delivery schedules, exhaustive truncation and read-error offsets per generated document, sampled corruption; oracle = abstract document the text was generated from + one-bit 'decoder detects an error' predicate",
        text="Every generated document is pushed through ReadXml under the reference delivery, drawn chunkings (1 byte, inside multi-byte sequences and markup tokens, zero-length reads, EOF with data), every truncation offset, a read error at every offset and sampled corruptions. Fault-free runs must reproduce the abstract document exactly (names, attributes, text merging, comments, PIs, one owned namespace node per in-scope binding); faulted runs must return an error whenever the decoder detects one, never a partial tree with nil error. Also: documents padded across the 4 KiB buffer boundary, seven declared 8-bit charsets, a custom-entity parse option (replacing the decoder's map or adding to it in place), references to entities nobody declared, and two Parser objects alive with interleaved Pull calls (each tree must equal the tree of the same bytes parsed alone). Seeded sampling of documents, exhaustive over fault offsets per document: evidence, not proof.",
        note="Trusts encoding/xml's tokeniser as the detector of malformedness for faulted inputs and the generator bounds of DESIGN §5 (DOCTYPE declarations incl. internal subsets are written but never referenced, no literal TAB/LF/CR in attribute values, no BOM, XML 1.0). A violation that needs state left by an earlier ReadXml call replays as 'run A, then run B'."),
    "C10": dict(
        engine="events", category="exploration", design_ref="§6.3",
        technique="deterministic simulation of the Parser seam: seeded event histories (incl. surplus end events, deep spines, same-prefix redeclaration) against a stack-machine reference model, plus a goroutine-stack ceiling fault (debug.SetMaxStack in child processes) on 10^5..3x10^6-event flat histories",
        text="A scripted user-supplied Parser feeds contract-conforming histories into store.CreateInMemory; the tree read back through the public Cursor API must equal a 40-line stack-machine model (shape, node identity, Pos unique/increasing in document order, Parent consistency, owned namespace nodes per in-scope prefix). A second, unrelated build must leave the first tree intact, and a complete second build started from inside Pull (a parser that itself uses the store) must not disturb either tree. Names repeat (one local name in several namespaces, same names on siblings / parent and child), elements carry up to 17 declarations, and in a third of the runs the tree is first observed bottom-up (deepest elements asked for their namespace nodes first). The stack bound is decided under an injected stack ceiling that scales with nesting depth only (a build that is merely slow is noted, not judged).",
        note="Seeded sampling of histories (<= 2000 events, depth <= 200) plus seven long flat shapes; the root's own Parent() and the order among namespace nodes are not constrained."),
    "C16": dict(
        engine="stream-json", category="fault_enumeration", design_ref="§6.2",
        technique="deterministic simulation of the io.Reader seam: seeded delivery schedules, exhaustive truncation and read-error offsets per generated text, sampled code-point corruption; oracle = generated value tree + an independent strict RFC 8259 reader for faulted texts",
        text="Every generated sequence of JSON values is pushed through ReadJson under the reference delivery, drawn chunkings, every truncation offset, a read error at every offset and sampled corruptions. Clean and still-valid texts must map to the documented #obj/#arr tree (member order, duplicate and odd keys, one text node per scalar, shortest round-tripping numerals); malformed texts (as decided by the independent reader) must produce an error, never a shorter tree.",
        note="Trusts the harness's own strict JSON reader (cross-checked against the generator on every clean input). Not judged: lone surrogate escapes, adjacent top-level values without white space, empty input. A numeral that denotes no double (1e400) may be rejected or kept literally, but must not become a text that is no numeral."),
    "C17": dict(
        engine="stream-html", category="exploration", design_ref="§6.7",
        technique="deterministic simulation of the io.Reader seam (delivery schedules, read errors, truncation, content corruption as tag-soup source) with a differential oracle: independent html.Parse + plain DOM walk",
        text="Generated pages and their truncated/corrupted variants go through ReadHtml under drawn delivery schedules; every input that starts with a doctype must yield exactly the tree of golang.org/x/net/html walked by a plain recursion (local names, attributes minus xmlns declarations with prefixes stripped, text, comments, nothing skipped or duplicated, no namespaces); a failing reader must produce an error. Weakly in-family: the property is a pure function of the bytes reached through a stream seam (DESIGN §6.7).",
        note="The reference is x/net/html itself, as the property states. Names carry at most one colon. Inputs without a leading doctype are only monitored for crashes."),
    "C13": dict(
        engine="history", category="exploration", design_ref="§6.4",
        technique="deterministic simulation of the caller and of user callbacks: seeded call histories over shared cursors, shared compiled expressions, caller-owned maps and held result slices (aliasing, spare capacity), callbacks that fail, panic, hand out held slices or re-enter Exec; oracle = snapshot invariants + the same query in a fresh isolated world + the same run / the same fixed query in a FRESH PROCESS (history test, battery)",
        text="Each run is a history of 3-24 public API calls on 1-3 shared documents. After every operation: documents, held slices, caller-owned maps and the exported face of every compiled expression are unchanged (I1); every query equals the same query in a fresh isolated world - re-parsed documents, re-built expression, re-created bindings (I2); verbatim repeats agree (I3); rebuilding a string gives the same parse structure (I4). Bindings (prefixes, scalar variables, function sets) vary per operation on the same compiled expression. Two oracles do not depend on process state: the isolated evaluation repeated after the call must not change (hidden global state), and every field Unmarshal filled must equal its own tag query evaluated directly. Three oracles reach state that survives in the process: the last runs of every batch worker are re-executed alone in fresh processes and must observe the same results; a battery of ~150 fixed near-neighbour queries (0/-0, 1/1.0, lang('en')/lang('EN'), p:c/q:c ...) evaluated at drawn points of arbitrary histories must answer what a fresh process answers; bursts of 20-3000 failing or panicking queries must leave earlier queries unchanged. Result.String() is part of every compared result.",
        note="No XPath reference evaluator: the implementation is compared with itself, so defects that do not depend on history cancel (those belong to not-applicable properties). Only public observations are used. I4 replays probabilistically."),
    "C14": dict(
        engine="sched-lib + sched-cli", category="exploration", design_ref="§6.6, §4",
        technique="deterministic simulation with seeded schedulers over yield points inserted at build time (go build -overlay, nothing committed in /repo): scheduler L = turn token without happens-before edges so that the Go race detector stays sound under a chosen interleaving (plain + -race builds, same seeds); scheduler P = park/release with blocked-state detection from goroutine wait reasons, driving the real CLI main() as task 0",
        text="Library: 2-4 tasks run Exec/Unmarshal/GetCursorString/BuildExpr on one shared tree, one pool of compiled expressions and one set of bindings (incl. shared node-set variables with spare capacity); every operation must return its isolated-world result, the shared world must be unchanged after the join, and the -race build of the same seeds must report nothing in /repo code; tasks also parse documents concurrently (what every CLI worker does first); now and then a crowd of 16-32 tasks each inside one deeply nested evaluation. CLI: `-c N` under drawn schedules (uniform, priority change points, run-to-block, starvation; yields in xsel/xsel.go and, one in four, inside parser/store/exec) must terminate by main returning and print exactly the per-file blocks of `-c 1`, each once and contiguous.",
        note="Yield granularity is the Go statement; the generated lexer/GLL parser and map-ranging build-time functions are not yield-instrumented (BuildExpr is atomic in the plain build; the race build still sees their memory accesses). GOMAXPROCS=1 inside simulations. Blocking primitives inside the library are tolerated: a task parked in one loses the turn (runs in which that happened are excluded from the byte-for-byte determinism self-test); the collector is held still during a run."),
    "C15": dict(
        engine="hostile", category="exploration", design_ref="§6.5",
        technique="deterministic simulation with heavy fault injection at every seam: failing/garbage streams into all readers, failing/panicking/nil-returning callbacks, nil and odd bindings, unfillable Unmarshal targets, boundary-class numerics and token-mutated expressions; oracle = terminates, value xor error, no panic, no internal 'xpath query panic' for well-typed queries",
        text="Seeded hostile runs of three kinds (streams, queries, Unmarshal targets) under a monitor that catches escaped panics, (nil, nil) returns and internal-panic errors; worker-process aborts (16 MiB stack ceiling: unbounded recursion ends the process quickly) and hangs (180 s watchdog) are attributed to the run in progress; violations that depend on state left by earlier runs of the same process are replayed together with those runs.",
        note="Arbitrary byte strings as *expression* are only sampled (pure-input clause; the simulator adds nothing there). 'xpath query panic' is judged only for un-mutated generated expressions in runs without panicking/nil callbacks or nil variables."),
    "C20": dict(
        engine="cli", category="exploration", design_ref="§6.8",
        technique="deterministic simulation of the CLI process: the real main() runs as task 0 under scheduler P over a generated directory tree with injected file faults (truncated, corrupted, empty, dangling symlink, symlink to directory, unknown extension, missing file), generated argv and stdin; oracle = record-by-record comparison with what the same library computes, -m records judged by re-parsing, per-input isolation",
        text="For every scenario the tool runs once over the whole set and once per expanded input. Each input's stdout must be exactly the expected records (prefix, string value, -a per node, -m single-line XML that parses back to the node: expanded names, attributes, text, comments, PIs); unreadable/unparsable inputs must print nothing and a diagnostic; the whole-set stdout must be the concatenation of the per-input outputs in argument/walk order.",
        note="Both sides use the same library, so XPath-semantics defects cancel. Diagnostic wording and exit status are not judged. Nodes that have no XML serialisation at all (characters outside XML Char, comments containing --) are not judged. Four genuine -m defects are listed as known findings (known_findings.json)."),
}


def main():
    checks = []
    for pid in sorted(CHECKS):
        c = CHECKS[pid]
        checks.append({
            "property_id": pid,
            "quick_cmd": f"./check {pid} quick",
            "thorough_cmd": f"./check {pid} thorough",
            "evidence_file": f"/verif/evidence/{pid}.json",
            "replay_cmd_template": f"./check {pid} --replay {{path}}",
            "engine": c["engine"],
            "level_claimed": {"category": c["category"], "text": c["text"], "design_ref": c["design_ref"]},
            "level_note": c["note"],
            "technique": c["technique"],
        })
    allna = dict(NOT_APPLICABLE)
    allna.update(PENDING)
    na = [{"property_id": k, "reason": v} for k, v in sorted(allna.items()) if k not in CHECKS]
    manifest = {
        "version": 1,
        "setup_cmd": "./check setup",
        "hooks": {
            "guard": "verif",
            "enable": "no hook is committed in /repo: yield points are inserted at check time by /verif/instr into copies of /repo's current sources and compiled with `go build -tags verif -overlay <overlay.json> -gcflags=github.com/ChrisTrenkamp/xsel/verifhook=-complete=false` (tag `verif` selects the harness-side scheduler files; the gcflag lets the scheduler use two linkname-accessible runtime functions without an assembly stub); with the overlay absent the shipped code is byte-identical",
            "baseline_off_cmd": "cd /repo && GOFLAGS=-mod=mod GOPROXY=off GOSUMDB=off GOTOOLCHAIN=local go test -vet=off -count=1 ./...",
            "source_commits": [],
            "add_only": True,
        },
        "engines": [
            {"name": "stream", "path": "engines/stream", "serves_properties": ["C09", "C16", "C17"], "kind_free_text": "simulated io.Reader (delivery schedule + truncation/read-error/corruption faults) in front of the real readers"},
            {"name": "stream-json/html", "path": "engines/stream", "serves_properties": ["C16", "C17"], "kind_free_text": "same simulated reader in front of ReadJson / ReadHtml"},
            {"name": "history", "path": "engines/history", "serves_properties": ["C13"], "kind_free_text": "simulated caller + callbacks over the real library; isolated-world reference"},
            {"name": "sched-lib", "path": "engines/schedlib + hook/schedl.go + instr", "serves_properties": ["C14"], "kind_free_text": "seeded statement-level scheduler over overlay-instrumented library sources; plain and -race builds"},
            {"name": "sched-cli", "path": "engines/cli/sched.go + hook/schedp.go + hook/clisim", "serves_properties": ["C14"], "kind_free_text": "seeded goroutine scheduler driving the real CLI main()"},
            {"name": "cli", "path": "engines/cli", "serves_properties": ["C20"], "kind_free_text": "simulated argv/stdin/file tree with file faults around the real CLI"},
            {"name": "hostile", "path": "engines/hostile", "serves_properties": ["C15"], "kind_free_text": "fault-heavy configurations of all seams under a crash monitor"},
            {"name": "events", "path": "engines/events", "serves_properties": ["C10"], "kind_free_text": "scripted Parser histories + stack-ceiling fault in front of the real store"},
        ],
        "checks": checks,
        "not_applicable": na,
        "notes": "Exit codes of every command: 0 held, 1 VIOLATION line printed with a replay file, 2 harness/build doubt (never a verdict). VERIF_SEED selects the base seed (default 1). See DESIGN.md.",
    }
    with open(os.path.join(HERE, "MANIFEST.json"), "w") as f:
        json.dump(manifest, f, indent=1)
        f.write("\n")


if __name__ == "__main__":
    main()

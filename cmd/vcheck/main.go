// vcheck is the driver and the plain (un-instrumented) worker binary.
package main

import (
	"fmt"
	"os"

	"verif/simkit"
)

func main() {
	if len(os.Args) < 2 {
		fmt.Fprintln(os.Stderr, "usage: vcheck check <ID> <tier> | replay <ID> <file> | worker|exec1|shrink ...")
		os.Exit(2)
	}
	switch os.Args[1] {
	case "check":
		os.Exit(checkCmd(os.Args[2:]))
	case "replay":
		os.Exit(replayCmd(os.Args[2:]))
	case "stackchild":
		os.Exit(stackChild(os.Args[2:]))
	default:
		os.Exit(simkit.WorkerMain(os.Args[1:], plainEngines()))
	}
}

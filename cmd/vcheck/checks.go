package main

import (
	"encoding/json"
	"fmt"
	"os"
	"os/exec"
	"strconv"

	"verif/engines/cli"
	"verif/engines/events"
	"verif/engines/history"
	"verif/engines/hostile"
	"verif/engines/stream"
	"verif/simkit"
)

func plainEngines() map[string]simkit.Engine {
	m := map[string]simkit.Engine{}
	add := func(name string, f func(*simkit.Tape, *simkit.Outcome, bool)) {
		m[name] = simkit.EngineFunc{N: name, F: f}
	}
	add("stream-xml", stream.XML)
	add("events", events.Run)
	add("stream-json", stream.JSON)
	add("stream-html", stream.HTML)
	m["history"] = simkit.EngineFunc{N: "history", F: history.Run, Ref: history.Reference}
	add("sched-cli", cli.Sched)
	add("cli", cli.Run)
	add("hostile", hostile.Run)
	return m
}

var realLib = []string{"all of /repo (library packages, unmodified)", "encoding/xml", "encoding/json", "golang.org/x/net/html", "golang.org/x/text", "Go runtime"}

func env(name, def string) string {
	if v := os.Getenv(name); v != "" {
		return v
	}
	return def
}

func self() string {
	p, err := os.Executable()
	if err != nil {
		return os.Args[0]
	}
	return p
}

func checkCmd(args []string) int {
	if len(args) < 2 {
		fmt.Fprintln(os.Stderr, "usage: vcheck check <ID> quick|thorough")
		return 2
	}
	id, tier := args[0], args[1]
	if tier != "quick" && tier != "thorough" {
		fmt.Fprintln(os.Stderr, "tier must be quick or thorough")
		return 2
	}
	seed, _ := strconv.ParseUint(env("VERIF_SEED", "1"), 10, 64)
	if seed == 0 {
		seed = 1
	}
	thorough := tier == "thorough"
	pick := func(q, t uint64) uint64 {
		if thorough {
			return t
		}
		return q
	}
	secs := func(q, t int) int {
		if thorough {
			return t
		}
		return q
	}
	c := &simkit.Check{Property: id, Tier: tier, Seed: seed, VerifDir: env("VERIF_DIR", "/verif")}
	bin := self()
	switch id {
	case "C09":
		c.Level = "fault_enumeration"
		c.Rule = "one evaluation = one generated abstract XML document, serialised with tape-drawn variation and pushed through ReadXml under: the reference delivery, 1-3 drawn delivery schedules, EVERY truncation offset, a read error at EVERY offset, and 8-23 sampled content corruptions (executions_of_code_under_test counts the ReadXml calls); distinct = distinct document bytes; non-trivial = document has >= 3 nodes and at least one truncation landed inside the document element"
		c.Assumptions = []string{"generator bounds of DESIGN.md §5 (no DTD subset, no literal TAB/LF/CR in attribute values, no BOM)", "the predicate 'decoder detects an error' is computed by a bare encoding/xml token loop with the same CharsetReader", "faulted inputs that the decoder does not reject are only monitored for crashes"}
		c.Components = map[string][]string{"real": realLib, "simulated": {"io.Reader behind ReadXml (delivery schedule, truncation, read errors, corruption)"}}
		c.RequiredProbes = []string{"truncation-inside-multibyte-sequence", "corruption-detected-by-decoder", "corruption-still-decodable", "read-error", "truncation-after-document-element", "delivery:one-byte", "delivery:cut-inside-tokens", "zero-length-reads", "declared-encoding-with-non-ascii-bytes:windows-1252", "declared-encoding-with-non-ascii-bytes:ISO-8859-1", "declared-encoding-with-non-ascii-bytes:KOI8-R", "declared-encoding-with-non-ascii-bytes:ISO-8859-2", "custom-entity-option", "interleaved-parsers", "corrupt:undefined-entity-reference", "custom-entity-option-adds-in-place", "first-observation-bottom-up"}
		c.Phases = []simkit.Phase{{Label: "stream-xml", Bin: bin, Engine: "stream-xml", Runs: pick(8000, 400000), MaxSeconds: secs(60, 1500), DetSample: int(pick(24, 256)), Samples: 3}}
	case "C16":
		c.Level = "fault_enumeration"
		c.Rule = "one evaluation = one generated sequence of JSON values, serialised with tape-drawn variation and pushed through ReadJson under: the reference delivery, 1-3 drawn delivery schedules, EVERY truncation offset, a read error at EVERY offset, and 8-23 sampled code-point corruptions (executions_of_code_under_test counts the ReadJson calls); distinct = distinct text; non-trivial = text has >= 5 bytes and at least one truncation produced malformed JSON"
		c.Assumptions = []string{"malformedness of faulted texts is decided by an independent strict RFC 8259 reader (model.JSONRef) that must agree with the generator on every clean input", "texts with lone surrogate escapes, a leading byte order mark, adjacent top-level values without white space, or no value at all are not judged; a numeral that denotes no double may be rejected or kept literally but must not become a text that is no numeral", "top-level values are separated by white space"}
		c.Components = map[string][]string{"real": realLib, "simulated": {"io.Reader behind ReadJson (delivery schedule, truncation, read errors, corruption)"}}
		c.RequiredProbes = []string{"truncation-inside-multibyte-sequence", "corruption-malformed", "corruption-still-valid", "read-error", "truncation-still-valid", "truncation-malformed", "delivery:one-byte", "zero-length-reads", "number-outside-double-range"}
		c.Phases = []simkit.Phase{{Label: "stream-json", Bin: bin, Engine: "stream-json", Runs: pick(10000, 600000), MaxSeconds: secs(60, 1500), DetSample: int(pick(24, 256)), Samples: 3}}
	case "C17":
		c.Level = "exploration"
		c.Rule = "one evaluation = one generated HTML page (doctype variants, structural/table/void/raw-text/foreign vocabulary, xmlns/xlink/prefixed attributes, generation-time tag soup) pushed through ReadHtml under drawn delivery schedules, sampled truncations, sampled read errors and 8-19 content corruptions; every input that starts with a doctype is compared with an independent html.Parse + plain DOM walk (executions_of_code_under_test counts the ReadHtml calls); distinct = distinct page text; non-trivial = at least 3 of the inputs derived from the page were judged"
		c.Assumptions = []string{"the reference is golang.org/x/net/html itself, as the property states; the harness walks its DOM with a plain recursion", "names carry at most one colon", "inputs without a leading doctype are only monitored for crashes"}
		c.Components = map[string][]string{"real": realLib, "simulated": {"io.Reader behind ReadHtml (delivery schedule, truncation, read errors, content corruption as the tag-soup source)"}}
		c.RequiredProbes = []string{"judged-inputs", "not-judged-no-leading-doctype", "read-error", "truncation", "delivery:one-byte"}
		c.Phases = []simkit.Phase{{Label: "stream-html", Bin: bin, Engine: "stream-html", Runs: pick(15000, 400000), MaxSeconds: secs(60, 1500), DetSample: int(pick(24, 256)), Samples: 3}}
	case "C13":
		c.Level = "exploration"
		c.Rule = "one evaluation = one simulated call history over 1-3 shared documents (XML/JSON/HTML through the real readers): 3-24 operations drawn from BuildExpr, Exec with With-options or caller-owned maps, ExecAsNodeset whose result slice the caller keeps, deriving sub-slices (with spare capacity) and passing them back as variables, verbatim repeats, Unmarshal, GetCursorString, rebuilds; user callbacks fail, panic, hand out caller-held slices or re-enter Exec; every query (incl. how its result prints) is compared with the same query in a fresh isolated world; bursts of 20-3000 failing queries; a battery of fixed near-neighbour queries answered against a fresh process; the last runs of every worker re-executed alone in fresh processes (history test); distinct = distinct operation list; non-trivial = >= 3 queries or >= 3 held slices"
		c.Assumptions = []string{"no XPath reference evaluator: results are compared with the implementation itself in a fresh isolated world (same document bytes, expression string, bindings, context-node path)", "only public observations are used (Cursor API, exported Grammar methods, the caller's own maps and slices)", "the rebuild-determinism oracle (I4) replays probabilistically", "state that survives in the process is reached by three fresh-process oracles (battery, history test over the tail runs, prior-run replay); a state change that none of the sampled tail runs and battery items observes stays invisible"}
		c.Components = map[string][]string{"real": realLib, "simulated": {"the caller (order, repetition and aliasing of public API calls)", "user callbacks (errors, panics, re-entrancy, handing out held slices)"}}
		c.RequiredProbes = []string{"held-slice-with-spare-capacity", "held-slice-in-reverse-order", "variable-is-held-slice-with-spare-capacity", "callback-reentered-Exec", "callback-reentered-same-compiled-expression", "compiled-expression-reused", "bindings-via-caller-owned-maps", "callback-error", "callback-panic", "repeated-operation", "rebuild-determinism-check", "callback-returned-caller-held-slice", "battery-item-compared-with-fresh-process", "burst-of-failing-queries", "repeated-operation-after-burst"}
		c.Phases = []simkit.Phase{{Label: "history", Bin: bin, Engine: "history", Runs: pick(10000, 400000), MaxSeconds: secs(70, 1500), DetSample: int(pick(16, 128)), Samples: 3, HistTail: int(pick(6, 24))}}
	case "C14":
		c.Level = "exploration"
		raceEnv := []string{"GORACE=halt_on_error=0 exitcode=0 log_path=" + env("VERIF_RACE_LOG", "/tmp/verif-race")}
		c.Rule = "one evaluation = one simulated run: (library) 2-4 tasks x 1-5 operations (Exec with options or shared caller-owned maps, Unmarshal, GetCursorString, BuildExpr) on one shared cursor tree, one pool of compiled expressions and one set of bindings incl. shared node-set variables with spare capacity / reverse order, under a tape-drawn schedule of scheduler L (geometric gaps, PCT, site-targeted switches), once in the plain build and - same seeds - in the -race build; (CLI) one `-c N` process under a tape-drawn schedule of scheduler P; distinct = distinct hash of (scenario, context-switch sequence); non-trivial = at least two tasks actually interleaved (one ran a step strictly between another's first and last step)"
		c.Assumptions = []string{"yield granularity is the Go statement (the -race build covers finer grain for conflicts, not for result corruption)", "the generated lexer / GLL parser and the map-ranging build-time functions of the BSR set are not yield-instrumented: BuildExpr is one atomic step per call in the plain build (the -race build still sees every memory access in them)", "GOMAXPROCS=1 inside simulation processes", "expected results come from isolated worlds computed before the tasks start"}
		c.Components = map[string][]string{"real": append([]string{"Go race detector (race build)"}, realLib...), "simulated": {"goroutine choice between any two statements of exec/, store/, parser/, grammar/grammar.go, grammar/parser/bsr, xsel.go (scheduler L, turn token without happens-before edges)", "user callbacks"}}
		c.RequiredProbes = []string{"tasks-interleaved", "shared-variable-with-spare-capacity", "shared-variable-in-reverse-order", "forced-switch-at-targeted-site", "race-build-run", "two-or-more-workers-live", "blocked:chan send", "files-with-multi-record-blocks", "every-task-parses-first", "crowd-of-tasks"}
		c.Phases = []simkit.Phase{
			{Label: "sched-lib", BinKind: "sched", Bin: env("VERIF_SCHED_BIN", ""), Engine: "sched-lib", Runs: pick(12000, 500000), MaxSeconds: secs(30, 900), DetSample: int(pick(16, 128)), Samples: 2},
			{Label: "sched-cli", Bin: bin, Engine: "sched-cli", Runs: pick(900, 300000), MaxSeconds: secs(30, 1200), DetSample: int(pick(4, 32)), Samples: 2},
			{Label: "sched-lib-race", BinKind: "sched-race", Bin: env("VERIF_SCHED_RACE_BIN", ""), Engine: "sched-lib", Runs: pick(3000, 100000), MaxSeconds: secs(30, 900), Env: raceEnv, Samples: 1},
		}
	case "C20":
		c.Level = "exploration"
		c.Rule = "one evaluation = one run of the real CLI (instrumented test binary, main() as task 0 under scheduler P with the run-to-completion schedule, -c 1) over a generated directory tree (xml/xhtml/svg/html/htm/json/other extensions, nested directories, file faults: truncated, corrupted, empty, dangling symlink, symlink to a directory, unknown extension, missing file), flags (-a -m -n -r -t -u -s -v -e), an expression from the pool or the workload generator, optional stdin; stdout is matched record by record against what the harness computes with the same library; distinct = distinct (argv, tree, stdin); non-trivial = at least one file processed and at least one record or required diagnostic"
		c.Assumptions = []string{"both sides use the same library: XPath-semantics defects cannot raise an alarm here", "diagnostic wording and exit status are not judged", "-m records are judged by re-parsing (expanded names, attributes, text, comments, PIs), never byte-wise; attribute/namespace/root results under -m only have to be single-line", "-m round trips are judged for nodes of XML and generated (clean) HTML documents and JSON documents alike; findings are keyed by the shape of the difference"}
		c.Components = map[string][]string{"real": append([]string{"xsel/xsel.go (yield-instrumented copy, otherwise unmodified), flag, mime, filepath.WalkDir, os"}, realLib...), "simulated": {"argv, stdin, directory tree and file faults (scratch directory on the real file system)", "goroutine choice (scheduler P, trivial schedule)"}}
		c.RequiredProbes = []string{"string-record", "multi-line-string-record", "m-record:element", "m-record:text", "file-fault:unreadable", "file-fault:unparsable or untyped", "global-diagnostic-case", "files-processed", "expression-shows-variable-value", "blocks-in-argument-or-walk-order"}
		c.Phases = []simkit.Phase{{Label: "cli", Bin: bin, Engine: "cli", Runs: pick(4000, 300000), MaxSeconds: secs(60, 1500), DetSample: int(pick(8, 64)), Samples: 3}}
	case "C15":
		c.Level = "exploration"
		c.Rule = "one evaluation = one hostile run of one of three kinds: (streams) a generated XML/JSON/HTML text mangled by 1-4 faults (code-point/byte corruption, garbage bytes incl. invalid UTF-8, unknown encodings, entity bombs, truncation, 200-3200-deep nesting) read by its own and a foreign reader through a failing reader (first-read failure, data+error, failure just before EOF, zero-length reads), then queried; (queries) 3-12 well-typed generated expressions with boundary-class numeric arguments (+-0, +-Inf, NaN, +-0.5, 2^53+1, 2^63, 1e30, fractions), a quarter of them token-mutated, under failing / panicking / nil-returning callbacks, nil variables and odd namespace bindings; (unmarshal) 4-13 Unmarshal calls with 40 kinds of unfillable target and results of the wrong shape; distinct = distinct tape; non-trivial = at least one fault fired"
		c.Assumptions = []string{"arbitrary byte strings as *expression* are only sampled (generator + token mutation): that clause is a pure-input quantifier and the simulator adds nothing to it", "'xpath query panic' is only judged for un-mutated generated expressions in runs where no callback panicked or returned (nil,nil) and no variable was nil", "a hang is detected by the batch watchdog (180 s without progress) and attributed to the run in progress"}
		c.Components = map[string][]string{"real": realLib, "simulated": {"io.Reader (hostile delivery and failures)", "user callbacks (errors, panics of several value types, nil results)", "binding maps", "Unmarshal targets"}}
		c.RequiredProbes = []string{"part:streams", "part:queries", "part:unmarshal", "unfillable-target", "hostile-callback:panic", "hostile-callback:fail", "hostile-callback:nilnil", "mutated-expression", "variable-bound-to-nil", "well-typed-query-evaluated", "unmarshal-nil-result"}
		c.Phases = []simkit.Phase{{Label: "hostile", Bin: bin, Engine: "hostile", Runs: pick(50000, 1500000), MaxSeconds: secs(60, 1500), DetSample: int(pick(24, 256)), Samples: 3}}
	case "C10":
		c.Level = "exploration"
		c.Rule = "one evaluation = one scripted event history (contract-conforming: element start, then namespaces, then attributes, then children, end; surplus end events only where depth is 0) pulled by store.CreateInMemory through the Parser seam and compared with a stack-machine reference model, plus the stack-ceiling child processes (one evaluation each); distinct = distinct event history; non-trivial = history has >= 4 events"
		c.Assumptions = []string{"a failing Pull is not used as a fault: the statement is about conforming streams", "the root's own Parent() is not constrained", "order among the namespace nodes of one element is not constrained beyond increasing Pos"}
		c.Components = map[string][]string{"real": {"store.CreateInMemory and the InMemory cursor (unmodified)", "Go runtime (stack growth, debug.SetMaxStack)"}, "simulated": {"the Parser (scripted event histories, generated on the fly for the 10^5..3*10^6-event runs)", "goroutine stack ceiling (resource fault)"}}
		c.RequiredProbes = []string{"surplus-end-event-at-depth-0", "inherited-namespace", "overridden-namespace", "deep-history", "build-nested-inside-pull", "first-observation-bottom-up", "second-build-then-recheck"}
		c.Phases = []simkit.Phase{{Label: "events", Bin: bin, Engine: "events", Runs: pick(60000, 1000000), MaxSeconds: secs(40, 1200), DetSample: int(pick(24, 256)), Samples: 3}}
		sizes := []int{100000, 1000000}
		if thorough {
			sizes = append(sizes, 3000000)
		}
		found, samples, runs, faults := runStackFaults(c.VerifDir, sizes)
		c.ExtraViolations = found
		c.ExtraSamples = samples
		c.ExtraEvals = runs
		c.Extra = map[string]any{"stack_ceiling_runs": runs, "stack_ceiling_fault_fired": faults["stack-ceiling"], "stack_ceiling_rule": "debug.SetMaxStack(1 MiB + 4 KiB x nesting depth) in a child process; shapes x n in " + fmt.Sprint(sizes)}
	default:
		fmt.Fprintln(os.Stderr, "unknown or not-applicable property", id)
		return 2
	}
	return simkit.RunCheck(c)
}

// replayCmd re-executes one replay file in a fresh worker process. Exit 1 if
// the recorded violation class is reproduced, 0 if it is gone.
func replayCmd(args []string) int {
	if len(args) < 2 {
		fmt.Fprintln(os.Stderr, "usage: vcheck replay <ID> <file>")
		return 2
	}
	file := args[1]
	b, err := os.ReadFile(file)
	if err != nil {
		fmt.Fprintln(os.Stderr, err)
		return 2
	}
	var rf simkit.ReplayFile
	if err := json.Unmarshal(b, &rf); err != nil {
		fmt.Fprintln(os.Stderr, err)
		return 2
	}
	if rf.Engine == "stack" {
		code := replayStack(rf)
		if code == 1 {
			fmt.Printf("VIOLATION property=%s replay=%s\n", rf.Property, file)
		} else if code == 0 {
			fmt.Printf("NOT-REPRODUCED property=%s replay=%s\n", rf.Property, file)
		}
		return code
	}
	bin := binFor(rf)
	cmd := exec.Command(bin, "exec1", "--file", file)
	cmd.Env = append(os.Environ(), envFor(rf)...)
	cmd.Stdout = os.Stdout
	cmd.Stderr = os.Stderr
	err = cmd.Run()
	code := 0
	if ee, ok := err.(*exec.ExitError); ok {
		code = ee.ExitCode()
	} else if err != nil {
		return 2
	}
	if rf.Class == "process-abort" && code != 0 && code != 1 {
		code = 1
	}
	if code == 1 {
		fmt.Printf("VIOLATION property=%s replay=%s\n", rf.Property, file)
	} else if code == 0 {
		fmt.Printf("NOT-REPRODUCED property=%s replay=%s\n", rf.Property, file)
	}
	return code
}

func envFor(rf simkit.ReplayFile) []string {
	if m, ok := rf.Extra.(map[string]any); ok {
		if l, ok := m["bin_env"].([]any); ok {
			out := []string{}
			for _, x := range l {
				if s, ok := x.(string); ok {
					out = append(out, s)
				}
			}
			return out
		}
	}
	return nil
}

func binFor(rf simkit.ReplayFile) string {
	kind := ""
	if m, ok := rf.Extra.(map[string]any); ok {
		kind, _ = m["bin_kind"].(string)
	}
	switch kind {
	case "sched":
		return env("VERIF_SCHED_BIN", self())
	case "sched-race":
		return env("VERIF_SCHED_RACE_BIN", self())
	}
	return self()
}


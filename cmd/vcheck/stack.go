package main

import (
	"bytes"
	"context"
	"encoding/json"
	"fmt"
	"os"
	"os/exec"
	"path/filepath"
	"runtime"
	"runtime/debug"
	"strconv"
	"strings"
	"time"

	"github.com/ChrisTrenkamp/xsel/node"
	"github.com/ChrisTrenkamp/xsel/store"

	"verif/simio"
	"verif/simkit"
)

// The resource fault of C10: a small goroutine-stack ceiling. The child process
// sets debug.SetMaxStack(1 MiB + 4 KiB x maxDepth) and builds a long history;
// a store whose stack use grows with the number of nodes dies with the runtime's
// fatal "stack overflow", which the parent recognises.

type stackShape struct {
	Name  string
	Depth int
	Make  func(n int) *simio.GenParser
}

func stackShapes() []stackShape {
	return []stackShape{
		{"flat-empty-children", 2, func(n int) *simio.GenParser {
			// start(r) then n x (start(c), end) then end
			total := 2 + 2*n
			return &simio.GenParser{N: total, Next: func(i int) (node.Node, bool) {
				switch {
				case i == 0:
					return &simio.SElem{Name: "r"}, false
				case i == total-1:
					return nil, true
				case i%2 == 1:
					return &simio.SElem{Name: "c"}, false
				}
				return nil, true
			}}
		}},
		{"flat-root-text", 1, func(n int) *simio.GenParser {
			return &simio.GenParser{N: n, Next: func(i int) (node.Node, bool) { return &simio.SText{Val: "t"}, false }}
		}},
		{"flat-attributes", 2, func(n int) *simio.GenParser {
			total := n + 2
			return &simio.GenParser{N: total, Next: func(i int) (node.Node, bool) {
				switch {
				case i == 0:
					return &simio.SElem{Name: "r"}, false
				case i == total-1:
					return nil, true
				}
				return &simio.SAttr{Name: "a", Val: "v"}, false
			}}
		}},
		{"one-prefix-redeclared", 2, func(n int) *simio.GenParser {
			total := n + 2
			return &simio.GenParser{N: total, Next: func(i int) (node.Node, bool) {
				switch {
				case i == 0:
					return &simio.SElem{Name: "r"}, false
				case i == total-1:
					return nil, true
				}
				return &simio.SNS{Pfx: "p", URI: "urn:x"}, false
			}}
		}},
		{"alternating-depth-3", 4, func(n int) *simio.GenParser {
			// r > a > b > (text, start(c), end)*
			total := 3 + 3*n + 3
			return &simio.GenParser{N: total, Next: func(i int) (node.Node, bool) {
				if i < 3 {
					return &simio.SElem{Name: []string{"r", "a", "b"}[i]}, false
				}
				if i >= total-3 {
					return nil, true
				}
				switch (i - 3) % 3 {
				case 0:
					return &simio.SText{Val: "t"}, false
				case 1:
					return &simio.SElem{Name: "c"}, false
				}
				return nil, true
			}}
		}},
		{"surplus-ends", 1, func(n int) *simio.GenParser {
			return &simio.GenParser{N: n, Next: func(i int) (node.Node, bool) {
				if i%2 == 0 {
					return nil, true
				}
				return &simio.SComment{Val: "c"}, false
			}}
		}},
		{"deep-5000", 5000, func(n int) *simio.GenParser {
			d := 5000
			total := 2*d + n
			return &simio.GenParser{N: total, Next: func(i int) (node.Node, bool) {
				if i < d {
					return &simio.SElem{Name: "d"}, false
				}
				if i < d+n {
					return &simio.SText{Val: "t"}, false
				}
				return nil, true
			}}
		}},
	}
}

func stackChild(args []string) int {
	if len(args) < 2 {
		return 2
	}
	n, _ := strconv.Atoi(args[1])
	for _, sh := range stackShapes() {
		if sh.Name != args[0] {
			continue
		}
		ceiling := 1<<20 + 4096*sh.Depth
		debug.SetMaxStack(ceiling)
		var before, after runtime.MemStats
		runtime.ReadMemStats(&before)
		c, err := store.CreateInMemory(sh.Make(n))
		runtime.ReadMemStats(&after)
		if err != nil {
			fmt.Printf(`{"ok":false,"error":%q}`+"\n", err.Error())
			return 0
		}
		// iterative count
		count := 0
		work := []store.Cursor{c}
		for len(work) > 0 {
			x := work[len(work)-1]
			work = work[:len(work)-1]
			count += 1 + len(x.Attributes())
			work = append(work, x.Children()...)
		}
		fmt.Printf(`{"ok":true,"nodes":%d,"ceiling":%d,"stack_sys_delta":%d}`+"\n", count, ceiling, int64(after.StackSys)-int64(before.StackSys))
		return 0
	}
	return 2
}

// runStackFaults executes the stack-ceiling runs and returns violations,
// evidence samples and the number of runs.
func runStackFaults(verifDir string, sizes []int) ([]simkit.FoundViolation, []any, int, map[string]int) {
	var found []simkit.FoundViolation
	var samples []any
	faults := map[string]int{}
	runs := 0
	for _, sh := range stackShapes() {
		for _, n := range sizes {
			if sh.Name == "deep-5000" && n > 100000 {
				continue
			}
			runs++
			ctx, cancel := context.WithTimeout(context.Background(), 240*time.Second)
			cmd := exec.CommandContext(ctx, self(), "stackchild", sh.Name, fmt.Sprint(n))
			var out, errb bytes.Buffer
			cmd.Stdout, cmd.Stderr = &out, &errb
			err := cmd.Run()
			timedOut := ctx.Err() != nil
			cancel()
			if timedOut {
				// the stack bound says nothing about time: a build that is merely slow
				// (e.g. quadratic in surplus end events) is noted, not judged
				faults["stack-ceiling-run-not-finished-in-240s"]++
				if len(samples) < 8 {
					samples = append(samples, map[string]any{"shape": sh.Name, "events_n": n, "result": "not finished within 240 s: not judged (the property bounds stack, not time)"})
				}
				continue
			}
			faults["stack-ceiling"]++
			st := errb.String()
			overflow := strings.Contains(st, "stack overflow") || strings.Contains(st, "goroutine stack exceeds")
			rec := map[string]any{"shape": sh.Name, "events_n": n, "ceiling_bytes": 1<<20 + 4096*sh.Depth}
			if err == nil {
				var r map[string]any
				json.Unmarshal(out.Bytes(), &r)
				for k, v := range r {
					rec[k] = v
				}
				if ok, _ := r["ok"].(bool); !ok {
					found = append(found, stackViolation(verifDir, sh.Name, n, "conforming-history-rejected", fmt.Sprintf("CreateInMemory failed on shape %s n=%d: %v", sh.Name, n, r["error"])))
				}
			} else if overflow {
				rec["result"] = "fatal: stack overflow under the ceiling"
				found = append(found, stackViolation(verifDir, sh.Name, n, "stack-grows-with-node-count",
					fmt.Sprintf("building a history of shape %s with n=%d (nesting depth %d) under a goroutine-stack ceiling of %d bytes dies with a fatal stack overflow: stack use grows with the number of nodes, not with depth", sh.Name, n, sh.Depth, 1<<20+4096*sh.Depth)))
			} else {
				rec["result"] = "child failed: " + err.Error()
				found = append(found, stackViolation(verifDir, sh.Name, n, "process-abort", fmt.Sprintf("child died: %v\n%s", err, tail(st, 1500))))
			}
			if len(samples) < 8 {
				samples = append(samples, rec)
			}
		}
	}
	return found, samples, runs, faults
}

func tail(s string, n int) string {
	if len(s) > n {
		return s[len(s)-n:]
	}
	return s
}

func stackViolation(verifDir, shape string, n int, class, detail string) simkit.FoundViolation {
	v := simkit.Violation{Property: "C10", Class: class, Signature: class, Detail: detail}
	path := filepath.Join(verifDir, "replays", fmt.Sprintf("C10-%s-%s-%d.json", class, shape, n))
	os.MkdirAll(filepath.Dir(path), 0o755)
	rf := simkit.ReplayFile{Property: "C10", Engine: "stack", Class: class, Signature: class, Violation: &v, Minimised: true,
		Scenario: map[string]any{"shape": shape, "n": n}, Extra: map[string]any{"shape": shape, "n": n}}
	b, _ := json.MarshalIndent(rf, "", " ")
	os.WriteFile(path, append(b, '\n'), 0o644)
	return simkit.FoundViolation{V: v, Engine: "stack", Replay: path}
}

func replayStack(rf simkit.ReplayFile) int {
	m, _ := rf.Extra.(map[string]any)
	shape, _ := m["shape"].(string)
	nf, _ := m["n"].(float64)
	cmd := exec.Command(self(), "stackchild", shape, fmt.Sprint(int(nf)))
	var errb bytes.Buffer
	cmd.Stderr = &errb
	cmd.Stdout = os.Stdout
	err := cmd.Run()
	if err != nil && (strings.Contains(errb.String(), "stack overflow") || strings.Contains(errb.String(), "goroutine stack exceeds")) {
		fmt.Println("fatal stack overflow reproduced")
		return 1
	}
	if err != nil {
		fmt.Println(tail(errb.String(), 800))
		return 2
	}
	return 0
}

//go:build verif

// vsched is the worker binary of the library half of C14. It is built at
// check time with `go build -overlay` (yield-instrumented copies of /repo's
// sources + the verifhook scheduler package), once plain and once with -race.
package main

import (
	"os"

	"verif/engines/schedlib"
	"verif/simkit"
)

func main() {
	engines := map[string]simkit.Engine{
		"sched-lib": simkit.EngineFunc{N: "sched-lib", F: schedlib.Run},
	}
	os.Exit(simkit.WorkerMain(os.Args[1:], engines))
}

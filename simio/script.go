package simio

import (
	"fmt"
	"io"

	"github.com/ChrisTrenkamp/xsel/node"
)

// Harness-side node values: "user-supplied parser" nodes. Each carries a
// unique id so that identity can be checked through the cursor tree.

type SElem struct {
	ID           int
	SpaceV, Name string
}

func (e *SElem) Space() string { return e.SpaceV }
func (e *SElem) Local() string { return e.Name }

type SAttr struct {
	ID                int
	SpaceV, Name, Val string
}

func (a *SAttr) Space() string          { return a.SpaceV }
func (a *SAttr) Local() string          { return a.Name }
func (a *SAttr) AttributeValue() string { return a.Val }

type SNS struct {
	ID       int
	Pfx, URI string
}

func (n *SNS) Prefix() string         { return n.Pfx }
func (n *SNS) NamespaceValue() string { return n.URI }

type SText struct {
	ID  int
	Val string
}

func (t *SText) CharDataValue() string { return t.Val }

type SComment struct {
	ID  int
	Val string
}

func (c *SComment) CommentValue() string { return c.Val }

type SPI struct {
	ID       int
	Tgt, Val string
}

func (p *SPI) Target() string        { return p.Tgt }
func (p *SPI) ProcInstValue() string { return p.Val }

// Event is one Pull result.
type Event struct {
	Node node.Node
	End  bool
}

func (e Event) String() string {
	if e.End {
		return "end"
	}
	switch n := e.Node.(type) {
	case *SElem:
		return fmt.Sprintf("start(%s)", n.Name)
	case *SAttr:
		return fmt.Sprintf("attr(%s=%s)", n.Name, n.Val)
	case *SNS:
		return fmt.Sprintf("ns(%s=%s)", n.Pfx, n.URI)
	case *SText:
		return fmt.Sprintf("text(%s)", n.Val)
	case *SComment:
		return fmt.Sprintf("comment(%s)", n.Val)
	case *SPI:
		return fmt.Sprintf("pi(%s %s)", n.Tgt, n.Val)
	}
	return "?"
}

// ScriptParser replays a list of events through the Parser seam (S2).
type ScriptParser struct {
	Events        []Event
	pos           int
	Pulls         int
	PullsAfterEOF int
}

func (s *ScriptParser) Pull() (node.Node, bool, error) {
	s.Pulls++
	if s.pos >= len(s.Events) {
		if s.pos > len(s.Events) {
			s.PullsAfterEOF++
		}
		s.pos = len(s.Events) + 1
		return nil, false, io.EOF
	}
	e := s.Events[s.pos]
	s.pos++
	if e.End {
		return nil, true, nil
	}
	return e.Node, false, nil
}

// GenParser produces events on the fly (for very long histories) from a
// function; it allocates nothing per event beyond the node values.
type GenParser struct {
	N    int
	Next func(i int) (node.Node, bool)
	i    int
}

func (g *GenParser) Pull() (node.Node, bool, error) {
	if g.i >= g.N {
		return nil, false, io.EOF
	}
	n, end := g.Next(g.i)
	g.i++
	return n, end, nil
}

// Package simio holds the simulated seams: the io.Reader behind
// ReadXml/ReadJson/ReadHtml (S1) and the scripted Parser (S2).
package simio

import (
	"errors"
	"fmt"
	"io"
	"io/fs"
	"strings"

	"verif/simkit"
)

var ErrInjected = errors.New("simio: injected read error")

// Delivery is the complete description of how a byte stream reaches the
// reader: which bytes, in which chunks, with which faults.
type Delivery struct {
	Data        []byte
	Law         string
	Chunks      []int // sizes; a chunk never spans FailAt
	ZeroBefore  map[int]int
	EOFWithData bool
	FailAt      int // -1: none; otherwise a read error is returned once FailAt bytes were delivered
	FailErr     error
	FailWithData bool // the failing read also returns the bytes before FailAt
}

func (d *Delivery) String() string {
	var b strings.Builder
	fmt.Fprintf(&b, "law=%s len=%d chunks=%d", d.Law, len(d.Data), len(d.Chunks))
	if len(d.Chunks) <= 24 {
		fmt.Fprintf(&b, " %v", d.Chunks)
	}
	if len(d.ZeroBefore) > 0 {
		fmt.Fprintf(&b, " zero-reads-before-chunks=%d", len(d.ZeroBefore))
	}
	if d.EOFWithData {
		b.WriteString(" eof-with-data")
	}
	if d.FailAt >= 0 {
		fmt.Fprintf(&b, " fail@%d(%v,withdata=%v)", d.FailAt, d.FailErr, d.FailWithData)
	}
	return b.String()
}

// SimReader implements io.Reader over a Delivery.
type SimReader struct {
	d      *Delivery
	off    int
	chunk  int
	inCh   int // bytes already delivered from the current chunk
	zeros  int // zero reads already done before the current chunk
	failed bool
	Reads  int
	ReadsAfterEnd int
}

func NewSimReader(d *Delivery) *SimReader { return &SimReader{d: d} }

func (r *SimReader) Read(p []byte) (int, error) {
	r.Reads++
	if r.failed {
		r.ReadsAfterEnd++
		return 0, r.d.FailErr
	}
	if len(p) == 0 {
		return 0, nil
	}
	d := r.d
	if d.FailAt >= 0 && r.off >= d.FailAt {
		r.failed = true
		return 0, d.FailErr
	}
	if r.off >= len(d.Data) {
		r.ReadsAfterEnd++
		return 0, io.EOF
	}
	for r.chunk < len(d.Chunks) && r.inCh >= d.Chunks[r.chunk] {
		r.chunk++
		r.inCh = 0
		r.zeros = 0
	}
	if z := d.ZeroBefore[r.chunk]; r.inCh == 0 && r.zeros < z {
		r.zeros++
		return 0, nil
	}
	n := len(d.Data) - r.off
	if r.chunk < len(d.Chunks) {
		if rem := d.Chunks[r.chunk] - r.inCh; rem < n {
			n = rem
		}
	}
	if n > len(p) {
		n = len(p)
	}
	if d.FailAt >= 0 && r.off+n >= d.FailAt {
		n = d.FailAt - r.off
		copy(p, d.Data[r.off:r.off+n])
		r.off += n
		r.inCh += n
		if d.FailWithData || n == 0 {
			r.failed = true
			return n, d.FailErr
		}
		return n, nil
	}
	copy(p, d.Data[r.off:r.off+n])
	r.off += n
	r.inCh += n
	if r.off >= len(d.Data) && d.EOFWithData {
		return n, io.EOF
	}
	return n, nil
}

// Delivered reports how many bytes were handed out.
func (r *SimReader) Delivered() int { return r.off }

// AllAtOnce delivers the data in one read, EOF separately.
func AllAtOnce(data []byte) *Delivery {
	return &Delivery{Data: data, Law: "all-at-once", Chunks: []int{len(data)}, FailAt: -1}
}

// cutPoints returns offsets that lie inside multi-byte sequences and inside
// multi-character markup tokens: the places where a chunk boundary is most
// likely to matter.
func cutPoints(data []byte) []int {
	var cuts []int
	for i := 1; i < len(data); i++ {
		if data[i]&0xC0 == 0x80 { // UTF-8 continuation byte
			cuts = append(cuts, i)
		}
	}
	s := string(data)
	for _, tok := range []string{"<![CDATA[", "]]>", "&#", "-->", "<!--", "?>", "<?", "</", "/>", "\r\n", "\\u", "&amp;", "&lt;", "xmlns", "true", "false", "null", "<!DOCTYPE"} {
		from := 0
		for {
			i := strings.Index(s[from:], tok)
			if i < 0 {
				break
			}
			for k := 1; k < len(tok); k++ {
				cuts = append(cuts, from+i+k)
			}
			from += i + len(tok)
		}
	}
	return cuts
}

// DrawDelivery draws a fault-free delivery schedule.
func DrawDelivery(t *simkit.Tape, data []byte) *Delivery {
	d := &Delivery{Data: data, FailAt: -1, ZeroBefore: map[int]int{}}
	n := len(data)
	switch t.Pick(1, 3, 3, 3) {
	case 0:
		d.Law = "all-at-once"
		d.Chunks = []int{n}
	case 1:
		d.Law = "one-byte"
		for i := 0; i < n; i++ {
			d.Chunks = append(d.Chunks, 1)
		}
	case 2:
		d.Law = "geometric"
		for rem := n; rem > 0; {
			c := 1 + t.Geo(9)
			if t.Bool(1, 6) {
				c += t.Draw(64)
			}
			if c > rem {
				c = rem
			}
			d.Chunks = append(d.Chunks, c)
			rem -= c
		}
	case 3:
		d.Law = "cut-inside-tokens"
		cuts := cutPoints(data)
		mark := make([]bool, n+1)
		for _, c := range cuts {
			if c > 0 && c < n {
				mark[c] = true
			}
		}
		last := 0
		for i := 1; i < n; i++ {
			if mark[i] {
				d.Chunks = append(d.Chunks, i-last)
				last = i
			}
		}
		d.Chunks = append(d.Chunks, n-last)
	}
	if t.Bool(1, 3) {
		k := 1 + t.Geo(4)
		for i := 0; i < k && len(d.Chunks) > 0; i++ {
			d.ZeroBefore[t.Draw(len(d.Chunks))] = 1 + t.Draw(3)
		}
	}
	d.EOFWithData = t.Bool(1, 3)
	return d
}

// FailErrors are the error values a failing reader returns.
func FailErr(i int) error {
	switch i % 3 {
	case 0:
		return ErrInjected
	case 1:
		return io.ErrUnexpectedEOF
	}
	return &fs.PathError{Op: "read", Path: "/sim/input", Err: errors.New("input/output error")}
}

package model

import (
	"fmt"
	"math"
	"strconv"
	"strings"
	"unicode/utf8"

	"verif/simkit"
)

type JKind int

const (
	JNull JKind = iota
	JBool
	JNum
	JStr
	JArr
	JObj
)

type JMember struct {
	Key string
	Val *JV
}

// JV is an abstract JSON value.
type JV struct {
	Kind    JKind
	Bool    bool
	Num     float64
	Str     string
	Items   []*JV
	Members []JMember
}

type JSONGenConfig struct {
	MaxNodes  int
	MaxDepth  int
	TopLevel  int
	OddKeys   bool
	NonASCII  bool
	BigNums   bool
	Escapes   bool
	Wide      bool // some containers get 17-60 children (size thresholds)
	Deep      int  // > 0: one value wrapped in that many nested containers inside an object with later members
	LeadWS    int  // > 0: that many white-space bytes before the first value (sniffing windows)
}

func DrawJSONConfig(t *simkit.Tape) JSONGenConfig {
	c := JSONGenConfig{}
	c.MaxNodes = []int{3, 8, 20, 50}[t.Pick(2, 3, 3, 2)]
	c.MaxDepth = t.Range(1, 8)
	c.TopLevel = 1
	if t.Bool(1, 4) {
		c.TopLevel = 2 + t.Draw(3)
	}
	c.OddKeys = t.Bool(1, 2)
	c.NonASCII = t.Bool(1, 2)
	c.BigNums = t.Bool(1, 2)
	c.Escapes = t.Bool(2, 3)
	c.Wide = t.Bool(1, 6)
	if t.Bool(1, 20) {
		c.Deep = []int{33, 63, 64, 65, 66, 129, 300}[t.Draw(7)]
	}
	if t.Bool(1, 25) {
		c.LeadWS = []int{510, 1020, 1024, 1030, 2050, 4100}[t.Draw(6)]
		c.NonASCII = true
	}
	return c
}

type jsonGen struct {
	t     *simkit.Tape
	cfg   JSONGenConfig
	nodes int
}

var jsonKeys = []string{"a", "b", "id", "name", "x"}
var jsonOddKeys = []string{"", "#obj", "#arr", "a b", "1", "a/b", "@k", "a:b", "\"q\"", "é", "日本", "\n", "a\\b"}
var jsonChars = []rune{'a', 'b', ' ', '1', '"', '\\', '/', '\n', '\t', '\r', '\b', '\f', '<', '&', '{', '[', ',', ':', 0x01, 0x1f, 0x7f}
var jsonCharsNA = []rune{'é', 'ß', '€', '日', '😀', 0x2028, 0xFFFD, 0xFEFF}
var jsonNums = []float64{0, 1, -1, 2, 10, 100, 0.5, -0.25, 1.5, 3.14159, 1e21, 1e-7, 123456789, 1e6, 1e20, 123456789012345680000, 0.000001, 1e-6, 4.9e-324, 1.7e308, -1.7e308, 2.2250738585072014e-308, 9007199254740993, 0.1, 0.30000000000000004, 1e22, 1e23}

func (g *jsonGen) str() string {
	n := g.t.Geo(6)
	var b strings.Builder
	for i := 0; i < n; i++ {
		if g.cfg.NonASCII && g.t.Bool(1, 4) {
			b.WriteRune(jsonCharsNA[g.t.Draw(len(jsonCharsNA))])
		} else {
			b.WriteRune(jsonChars[g.t.Draw(len(jsonChars))])
		}
	}
	return b.String()
}

func (g *jsonGen) key() string {
	if g.cfg.OddKeys && g.t.Bool(1, 3) {
		return jsonOddKeys[g.t.Draw(len(jsonOddKeys))]
	}
	return jsonKeys[g.t.Draw(len(jsonKeys))]
}

func (g *jsonGen) num() float64 {
	if g.t.Bool(1, 10) {
		// both zeros, often in one document
		if g.t.Bool(1, 2) {
			return math.Copysign(0, -1)
		}
		return 0
	}
	if g.cfg.BigNums && g.t.Bool(1, 2) {
		v := jsonNums[g.t.Draw(len(jsonNums))]
		if g.t.Bool(1, 6) && v == 0 {
			return math.Copysign(0, -1)
		}
		return v
	}
	v := float64(g.t.Draw(2000) - 1000)
	if g.t.Bool(1, 3) {
		v /= float64([]int{2, 4, 8, 10, 100, 1000}[g.t.Draw(6)])
	}
	return v
}

func (g *jsonGen) value(depth int) *JV {
	g.nodes++
	leaf := depth >= g.cfg.MaxDepth || g.nodes >= g.cfg.MaxNodes
	k := g.t.Pick(3, 3, 2, 1, 1, 1)
	if leaf && k < 2 {
		k = 2 + g.t.Draw(4)
	}
	switch k {
	case 0:
		o := &JV{Kind: JObj}
		n := g.t.Geo(5) + g.t.Pick(3, 1, 1, 1)
		budget := g.cfg.MaxNodes
		if g.cfg.Wide && g.t.Bool(1, 4) {
			n = 17 + g.t.Draw(44)
			budget = g.nodes + 2*n
		}
		for i := 0; i < n && g.nodes < budget; i++ {
			o.Members = append(o.Members, JMember{g.key(), g.value(depth + 1)})
		}
		return o
	case 1:
		a := &JV{Kind: JArr}
		n := g.t.Geo(5) + g.t.Pick(3, 1, 1, 1)
		budget := g.cfg.MaxNodes
		if g.cfg.Wide && g.t.Bool(1, 4) {
			n = 17 + g.t.Draw(44)
			budget = g.nodes + 2*n
		}
		for i := 0; i < n && g.nodes < budget; i++ {
			a.Items = append(a.Items, g.value(depth+1))
		}
		return a
	case 2:
		return &JV{Kind: JStr, Str: g.str()}
	case 3:
		return &JV{Kind: JNum, Num: g.num()}
	case 4:
		return &JV{Kind: JBool, Bool: g.t.Bool(1, 2)}
	}
	return &JV{Kind: JNull}
}

// GenJSON draws a sequence of top-level values.
func GenJSON(t *simkit.Tape, cfg JSONGenConfig) []*JV {
	g := &jsonGen{t: t, cfg: cfg}
	var out []*JV
	for i := 0; i < cfg.TopLevel; i++ {
		g.nodes = 0
		out = append(out, g.value(1))
	}
	if cfg.Deep > 0 {
		// {"k": [[[ ... {"d": v} ... ]]], "z": 1, "y": [2]}: members AFTER a deep value
		inner := &JV{Kind: JObj, Members: []JMember{{"d", g.value(cfg.MaxDepth)}}}
		var v *JV = inner
		for i := 0; i < cfg.Deep; i++ {
			if t.Bool(1, 4) {
				v = &JV{Kind: JObj, Members: []JMember{{"n", v}, {"after", &JV{Kind: JNum, Num: float64(i)}}}}
			} else {
				v = &JV{Kind: JArr, Items: []*JV{v}}
			}
		}
		out = append(out, &JV{Kind: JObj, Members: []JMember{{"k", v}, {"z", &JV{Kind: JNum, Num: 1}}, {"y", &JV{Kind: JArr, Items: []*JV{{Kind: JNum, Num: 2}}}}}})
	}
	return out
}

type jsonSer struct {
	t   *simkit.Tape
	cfg JSONGenConfig
	b   strings.Builder
}

func (s *jsonSer) ws() {
	n := s.t.Geo(2)
	for i := 0; i < n; i++ {
		s.b.WriteString([]string{" ", "\n", "\t", "\r"}[s.t.Pick(5, 2, 1, 1)])
	}
}

func (s *jsonSer) str(v string) {
	s.b.WriteByte('"')
	for _, r := range v {
		switch {
		case r == '"':
			s.b.WriteString(`\"`)
		case r == '\\':
			s.b.WriteString(`\\`)
		case r == '/' && s.t.Bool(1, 2):
			s.b.WriteString(`\/`)
		case r == '\n' && s.t.Bool(2, 3):
			s.b.WriteString(`\n`)
		case r == '\t' && s.t.Bool(2, 3):
			s.b.WriteString(`\t`)
		case r == '\r' && s.t.Bool(2, 3):
			s.b.WriteString(`\r`)
		case r == '\b' && s.t.Bool(2, 3):
			s.b.WriteString(`\b`)
		case r == '\f' && s.t.Bool(2, 3):
			s.b.WriteString(`\f`)
		case r < 0x20:
			fmt.Fprintf(&s.b, `\u%04x`, r)
		case r > 0xFFFF && s.cfg.Escapes && s.t.Bool(1, 2):
			r -= 0x10000
			fmt.Fprintf(&s.b, `\u%04X\u%04x`, 0xD800+(r>>10), 0xDC00+(r&0x3FF))
		case r <= 0xFFFF && s.cfg.Escapes && s.t.Bool(1, 8):
			if s.t.Bool(1, 2) {
				fmt.Fprintf(&s.b, `\u%04x`, r)
			} else {
				fmt.Fprintf(&s.b, `\u%04X`, r)
			}
		default:
			s.b.WriteRune(r)
		}
	}
	s.b.WriteByte('"')
}

func (s *jsonSer) num(v float64) {
	if v == 0 && math.Signbit(v) {
		s.b.WriteString([]string{"-0", "-0.0", "-0e0"}[s.t.Draw(3)])
		return
	}
	switch s.t.Pick(4, 2, 2, 1) {
	case 0:
		s.b.WriteString(strconv.FormatFloat(v, 'g', -1, 64))
	case 1:
		e := strconv.FormatFloat(v, 'e', -1, 64)
		if s.t.Bool(1, 2) {
			e = strings.Replace(e, "e", "E", 1)
		}
		if s.t.Bool(1, 2) {
			e = strings.Replace(e, "+", "", 1)
		}
		s.b.WriteString(e)
	case 2:
		if math.Abs(v) < 1e25 && (math.Abs(v) > 1e-12 || v == 0) {
			f := strconv.FormatFloat(v, 'f', -1, 64)
			if strings.Contains(f, ".") && s.t.Bool(1, 2) {
				f += "00"
			}
			s.b.WriteString(f)
		} else {
			s.b.WriteString(strconv.FormatFloat(v, 'g', -1, 64))
		}
	default:
		// redundant digits that still denote the same double
		f := strconv.FormatFloat(v, 'e', 20, 64)
		if back, err := strconv.ParseFloat(f, 64); err == nil && back == v {
			s.b.WriteString(f)
		} else {
			s.b.WriteString(strconv.FormatFloat(v, 'g', -1, 64))
		}
	}
}

func (s *jsonSer) value(v *JV) {
	switch v.Kind {
	case JNull:
		s.b.WriteString("null")
	case JBool:
		if v.Bool {
			s.b.WriteString("true")
		} else {
			s.b.WriteString("false")
		}
	case JNum:
		s.num(v.Num)
	case JStr:
		s.str(v.Str)
	case JArr:
		s.b.WriteByte('[')
		s.ws()
		for i, it := range v.Items {
			if i > 0 {
				s.b.WriteByte(',')
				s.ws()
			}
			s.value(it)
			s.ws()
		}
		s.b.WriteByte(']')
	case JObj:
		s.b.WriteByte('{')
		s.ws()
		for i, m := range v.Members {
			if i > 0 {
				s.b.WriteByte(',')
				s.ws()
			}
			s.str(m.Key)
			s.ws()
			s.b.WriteByte(':')
			s.ws()
			s.value(m.Val)
			s.ws()
		}
		s.b.WriteByte('}')
	}
}

// SerialiseJSON writes top-level values separated by white space.
func SerialiseJSON(t *simkit.Tape, cfg JSONGenConfig, vals []*JV) []byte {
	s := &jsonSer{t: t, cfg: cfg}
	s.ws()
	if cfg.LeadWS > 0 {
		s.b.WriteString(strings.Repeat([]string{" ", "\n", " \t"}[t.Draw(3)], cfg.LeadWS))
	}
	for i, v := range vals {
		if i > 0 {
			s.b.WriteString([]string{" ", "\n", "\r\n", "\t"}[t.Draw(4)])
			s.ws()
		}
		s.value(v)
	}
	s.ws()
	return []byte(s.b.String())
}

// JSONToTree maps values to the documented #obj/#arr tree. Number text nodes
// carry a marker so that the comparer can apply the numeric rule.
func JSONToTree(vals []*JV) *Node {
	root := &Node{Kind: KRoot}
	for _, v := range vals {
		root.Children = append(root.Children, jsonNode(v))
	}
	return root
}

const NumMarker = "\x00num:"

func jsonNode(v *JV) *Node {
	switch v.Kind {
	case JNull:
		return &Node{Kind: KText, Value: "null"}
	case JBool:
		if v.Bool {
			return &Node{Kind: KText, Value: "true"}
		}
		return &Node{Kind: KText, Value: "false"}
	case JNum:
		return &Node{Kind: KText, Value: NumMarker + strconv.FormatUint(math.Float64bits(v.Num), 16)}
	case JStr:
		return &Node{Kind: KText, Value: v.Str}
	case JArr:
		e := &Node{Kind: KElem, Local: "#arr", InScope: map[string]string{}}
		for _, it := range v.Items {
			e.Children = append(e.Children, jsonNode(it))
		}
		return e
	}
	e := &Node{Kind: KElem, Local: "#obj", InScope: map[string]string{}}
	for _, m := range v.Members {
		k := &Node{Kind: KElem, Local: m.Key, InScope: map[string]string{}}
		k.Children = append(k.Children, jsonNode(m.Val))
		e.Children = append(e.Children, k)
	}
	return e
}

// sigDigits returns the significant digits of a decimal numeral (no sign, no
// exponent, no leading/trailing zeros).
func sigDigits(s string) string {
	s = strings.TrimLeft(s, "+-")
	if i := strings.IndexAny(s, "eE"); i >= 0 {
		s = s[:i]
	}
	s = strings.Replace(s, ".", "", 1)
	s = strings.Trim(s, "0")
	return s
}

// NumberTextOK decides the numeric rule of C16: the text reads back to the
// same double and uses the shortest digit string that does.
func NumberTextOK(text string, bits uint64) bool {
	want := math.Float64frombits(bits)
	got, err := strconv.ParseFloat(text, 64)
	if err != nil || strings.ContainsAny(text, " \t\n") {
		return false
	}
	if math.Float64bits(got) != bits {
		return false
	}
	return len(sigDigits(text)) == len(sigDigits(strconv.FormatFloat(want, 'e', -1, 64)))
}

// CompareJSONTree compares an expected tree (with number markers) against a
// snapshot tree. Returns "" when equal.
func CompareJSONTree(want, got *Node, path string) string {
	if want.Kind != got.Kind {
		return fmt.Sprintf("%s: want %s, got %s", path, want.Kind, got.Kind)
	}
	switch want.Kind {
	case KText:
		if strings.HasPrefix(want.Value, NumMarker) {
			bits, _ := strconv.ParseUint(want.Value[len(NumMarker):], 16, 64)
			if !NumberTextOK(got.Value, bits) {
				return fmt.Sprintf("%s: number text %q is not the shortest numeral reading back to %v", path, got.Value, math.Float64frombits(bits))
			}
			return ""
		}
		if want.Value != got.Value {
			return fmt.Sprintf("%s: want text %q, got %q", path, want.Value, got.Value)
		}
		return ""
	case KElem:
		if want.Local != got.Local || got.Space != "" {
			return fmt.Sprintf("%s: want element %q, got {%s}%q", path, want.Local, got.Space, got.Local)
		}
		if len(got.Attrs) != 0 {
			return fmt.Sprintf("%s: element %q has attributes", path, got.Local)
		}
		if len(got.InScope) != 0 {
			return fmt.Sprintf("%s: element %q has namespace nodes", path, got.Local)
		}
	}
	for i := 0; i < len(want.Children) || i < len(got.Children); i++ {
		p := fmt.Sprintf("%s/%d", path, i)
		if i >= len(want.Children) {
			return fmt.Sprintf("%s: unexpected extra %s node", p, got.Children[i].Kind)
		}
		if i >= len(got.Children) {
			return fmt.Sprintf("%s: missing %s node", p, want.Children[i].Kind)
		}
		if d := CompareJSONTree(want.Children[i], got.Children[i], p); d != "" {
			return d
		}
	}
	return ""
}

// ---- strict RFC 8259 reference reader for a white-space separated sequence ----

type JSONStatus int

const (
	JSONOK JSONStatus = iota
	JSONMalformed
	JSONUnjudged // outside what the harness is willing to judge
)

type jsonRef struct {
	s        []byte
	i        int
	unjudged bool
	depth    int
}

func (p *jsonRef) ws() {
	for p.i < len(p.s) && (p.s[p.i] == ' ' || p.s[p.i] == '\t' || p.s[p.i] == '\n' || p.s[p.i] == '\r') {
		p.i++
	}
}

// JSONRef reads the text; values are only meaningful for JSONOK.
func JSONRef(text []byte) ([]*JV, JSONStatus) {
	if !utf8.Valid(text) {
		// An incomplete multi-byte sequence at the very end (a cut inside a
		// character) makes the text malformed under every reading: inside a
		// string the string is unterminated, outside it is an illegal character.
		i := len(text) - 1
		for i > 0 && i > len(text)-4 && !utf8.RuneStart(text[i]) {
			i--
		}
		if i >= 0 && utf8.Valid(text[:i]) && !utf8.FullRune(text[i:]) {
			return nil, JSONMalformed
		}
		return nil, JSONUnjudged
	}
	if len(text) >= 3 && text[0] == 0xEF && text[1] == 0xBB && text[2] == 0xBF {
		// RFC 8259 section 8.1: a parser MAY ignore a leading byte order mark
		return nil, JSONUnjudged
	}
	p := &jsonRef{s: text}
	var out []*JV
	p.ws()
	for p.i < len(p.s) {
		v, ok := p.value()
		if !ok {
			if p.unjudged {
				return nil, JSONUnjudged
			}
			return nil, JSONMalformed
		}
		out = append(out, v)
		if p.i < len(p.s) {
			c := p.s[p.i]
			if !(c == ' ' || c == '\t' || c == '\n' || c == '\r') {
				// adjacent top-level values: an extension nobody defines
				return nil, JSONUnjudged
			}
		}
		p.ws()
	}
	if p.unjudged || len(out) == 0 {
		return nil, JSONUnjudged
	}
	return out, JSONOK
}

func (p *jsonRef) lit(s string) bool {
	if p.i+len(s) <= len(p.s) && string(p.s[p.i:p.i+len(s)]) == s {
		p.i += len(s)
		return true
	}
	return false
}

func (p *jsonRef) value() (*JV, bool) {
	if p.i >= len(p.s) {
		return nil, false
	}
	p.depth++
	defer func() { p.depth-- }()
	if p.depth > 2000 {
		p.unjudged = true
		return nil, false
	}
	switch c := p.s[p.i]; {
	case c == '{':
		p.i++
		o := &JV{Kind: JObj}
		p.ws()
		if p.i < len(p.s) && p.s[p.i] == '}' {
			p.i++
			return o, true
		}
		for {
			p.ws()
			if p.i >= len(p.s) || p.s[p.i] != '"' {
				return nil, false
			}
			k, ok := p.str()
			if !ok {
				return nil, false
			}
			p.ws()
			if p.i >= len(p.s) || p.s[p.i] != ':' {
				return nil, false
			}
			p.i++
			p.ws()
			v, ok := p.value()
			if !ok {
				return nil, false
			}
			o.Members = append(o.Members, JMember{k, v})
			p.ws()
			if p.i >= len(p.s) {
				return nil, false
			}
			if p.s[p.i] == ',' {
				p.i++
				continue
			}
			if p.s[p.i] == '}' {
				p.i++
				return o, true
			}
			return nil, false
		}
	case c == '[':
		p.i++
		a := &JV{Kind: JArr}
		p.ws()
		if p.i < len(p.s) && p.s[p.i] == ']' {
			p.i++
			return a, true
		}
		for {
			p.ws()
			v, ok := p.value()
			if !ok {
				return nil, false
			}
			a.Items = append(a.Items, v)
			p.ws()
			if p.i >= len(p.s) {
				return nil, false
			}
			if p.s[p.i] == ',' {
				p.i++
				continue
			}
			if p.s[p.i] == ']' {
				p.i++
				return a, true
			}
			return nil, false
		}
	case c == '"':
		s, ok := p.str()
		if !ok {
			return nil, false
		}
		return &JV{Kind: JStr, Str: s}, true
	case c == 't':
		if p.lit("true") {
			return &JV{Kind: JBool, Bool: true}, true
		}
		return nil, false
	case c == 'f':
		if p.lit("false") {
			return &JV{Kind: JBool}, true
		}
		return nil, false
	case c == 'n':
		if p.lit("null") {
			return &JV{Kind: JNull}, true
		}
		return nil, false
	case c == '-' || (c >= '0' && c <= '9'):
		return p.num()
	}
	return nil, false
}

func (p *jsonRef) num() (*JV, bool) {
	start := p.i
	if p.s[p.i] == '-' {
		p.i++
	}
	if p.i >= len(p.s) {
		return nil, false
	}
	if p.s[p.i] == '0' {
		p.i++
	} else if p.s[p.i] >= '1' && p.s[p.i] <= '9' {
		for p.i < len(p.s) && p.s[p.i] >= '0' && p.s[p.i] <= '9' {
			p.i++
		}
	} else {
		return nil, false
	}
	if p.i < len(p.s) && p.s[p.i] == '.' {
		p.i++
		n := 0
		for p.i < len(p.s) && p.s[p.i] >= '0' && p.s[p.i] <= '9' {
			p.i++
			n++
		}
		if n == 0 {
			return nil, false
		}
	}
	if p.i < len(p.s) && (p.s[p.i] == 'e' || p.s[p.i] == 'E') {
		p.i++
		if p.i < len(p.s) && (p.s[p.i] == '+' || p.s[p.i] == '-') {
			p.i++
		}
		n := 0
		for p.i < len(p.s) && p.s[p.i] >= '0' && p.s[p.i] <= '9' {
			p.i++
			n++
		}
		if n == 0 {
			return nil, false
		}
	}
	f, err := strconv.ParseFloat(string(p.s[start:p.i]), 64)
	if err != nil {
		p.unjudged = true // syntactically a number, but outside the double range
		return nil, false
	}
	return &JV{Kind: JNum, Num: f}, true
}

func hex4(b []byte) (rune, bool) {
	if len(b) < 4 {
		return 0, false
	}
	var r rune
	for _, c := range b[:4] {
		r <<= 4
		switch {
		case c >= '0' && c <= '9':
			r |= rune(c - '0')
		case c >= 'a' && c <= 'f':
			r |= rune(c-'a') + 10
		case c >= 'A' && c <= 'F':
			r |= rune(c-'A') + 10
		default:
			return 0, false
		}
	}
	return r, true
}

func (p *jsonRef) str() (string, bool) {
	p.i++ // opening quote
	var b strings.Builder
	for p.i < len(p.s) {
		c := p.s[p.i]
		switch {
		case c == '"':
			p.i++
			return b.String(), true
		case c < 0x20:
			return "", false
		case c == '\\':
			p.i++
			if p.i >= len(p.s) {
				return "", false
			}
			e := p.s[p.i]
			p.i++
			switch e {
			case '"', '\\', '/':
				b.WriteByte(e)
			case 'b':
				b.WriteByte('\b')
			case 'f':
				b.WriteByte('\f')
			case 'n':
				b.WriteByte('\n')
			case 'r':
				b.WriteByte('\r')
			case 't':
				b.WriteByte('\t')
			case 'u':
				r, ok := hex4(p.s[p.i:])
				if !ok {
					return "", false
				}
				p.i += 4
				if r >= 0xD800 && r <= 0xDBFF {
					if p.i+6 <= len(p.s) && p.s[p.i] == '\\' && p.s[p.i+1] == 'u' {
						if r2, ok := hex4(p.s[p.i+2:]); ok && r2 >= 0xDC00 && r2 <= 0xDFFF {
							p.i += 6
							b.WriteRune(0x10000 + (r-0xD800)<<10 + (r2 - 0xDC00))
							continue
						}
					}
					p.unjudged = true // lone surrogate: RFC 8259 leaves the result open
					b.WriteRune(0xFFFD)
				} else if r >= 0xDC00 && r <= 0xDFFF {
					p.unjudged = true
					b.WriteRune(0xFFFD)
				} else {
					b.WriteRune(r)
				}
			default:
				return "", false
			}
		default:
			r, sz := utf8.DecodeRune(p.s[p.i:])
			b.WriteRune(r)
			p.i += sz
		}
	}
	return "", false
}

func mathBits(f float64) uint64 { return math.Float64bits(f) }

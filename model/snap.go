package model

import (
	"fmt"

	"github.com/ChrisTrenkamp/xsel/node"
	"github.com/ChrisTrenkamp/xsel/store"
)

// KindOf classifies a node value. Attribute and Namespace must be tested before
// Element because node.Element is just NamedNode.
func KindOf(n node.Node) Kind {
	switch n.(type) {
	case node.Namespace:
		return KNS
	case node.Attribute:
		return KAttr
	case node.CharData:
		return KText
	case node.Comment:
		return KComment
	case node.ProcInst:
		return KPI
	case node.Element:
		return KElem
	}
	return KRoot
}

// Problem is a structural defect found while walking a cursor tree.
type Problem struct {
	Sig    string
	Detail string
}

// Snap walks a cursor tree through the public Cursor API and returns the
// abstract tree it denotes plus structural problems (parent links, position
// order and uniqueness, namespace-node ownership).
type Snapshot struct {
	Tree     *Node
	Problems []Problem
	Cursors  []store.Cursor // document order: element, namespaces, attributes, children
	Paths    []string       // parallel to Cursors: index path
}

// TouchBottomUp looks at the tree in an unusual order before anybody else does:
// it finds the elements through Children() alone and then asks the deepest
// ones first for their namespace nodes and attributes. What a cursor answers
// must not depend on which of its relatives was asked before (lazily filled
// lists are a legitimate implementation, if they are filled correctly).
func TouchBottomUp(root store.Cursor) int {
	var all []store.Cursor
	work := []store.Cursor{root}
	for len(work) > 0 {
		c := work[len(work)-1]
		work = work[:len(work)-1]
		all = append(all, c)
		work = append(work, c.Children()...)
	}
	n := 0
	for i := len(all) - 1; i >= 0; i-- {
		n += len(all[i].Namespaces()) + len(all[i].Attributes())
		_ = all[i].Parent()
	}
	return n
}

func Snap(root store.Cursor) *Snapshot {
	s := &Snapshot{}
	seenPos := map[int]string{}
	seenPtr := map[store.Cursor]string{}
	last := -1
	var visit func(c store.Cursor, path string, parent store.Cursor, isRoot bool) *Node
	note := func(c store.Cursor, path string, parent store.Cursor, isRoot bool) {
		s.Cursors = append(s.Cursors, c)
		s.Paths = append(s.Paths, path)
		p := c.Pos()
		if isRoot {
			if p != 0 {
				s.problem("root-pos-nonzero", "root Pos()=%d", p)
			}
		} else {
			if p == 0 {
				s.problem("nonroot-pos-zero", "%s has Pos()=0", path)
			}
			if c.Parent() != parent {
				s.problem("parent-mismatch:"+KindOf(c.Node()).String(), "%s: Parent() is not the cursor that lists it", path)
			}
		}
		if prev, ok := seenPos[p]; ok {
			s.problem("pos-duplicate", "%s and %s share Pos()=%d", prev, path, p)
		}
		seenPos[p] = path
		if prev, ok := seenPtr[c]; ok {
			s.problem("cursor-shared:"+KindOf(c.Node()).String(), "cursor object listed twice: %s and %s", prev, path)
		}
		seenPtr[c] = path
		if p <= last {
			s.problem("pos-not-increasing", "%s has Pos()=%d but the previous node in document order has %d", path, p, last)
		}
		last = p
	}
	visit = func(c store.Cursor, path string, parent store.Cursor, isRoot bool) *Node {
		note(c, path, parent, isRoot)
		n := &Node{}
		raw := c.Node()
		n.Kind = KindOf(raw)
		if isRoot {
			n.Kind = KRoot
		}
		switch n.Kind {
		case KElem:
			e := raw.(node.Element)
			n.Space, n.Local = e.Space(), e.Local()
		case KAttr:
			a := raw.(node.Attribute)
			n.Space, n.Local, n.Value = a.Space(), a.Local(), a.AttributeValue()
		case KText:
			n.Value = raw.(node.CharData).CharDataValue()
		case KComment:
			n.Value = raw.(node.Comment).CommentValue()
		case KPI:
			pi := raw.(node.ProcInst)
			n.Target, n.Value = pi.Target(), pi.ProcInstValue()
		case KNS:
			ns := raw.(node.Namespace)
			n.Local, n.Value = ns.Prefix(), ns.NamespaceValue()
		}
		if n.Kind == KElem || n.Kind == KRoot {
			if n.Kind == KElem {
				n.InScope = map[string]string{}
			}
			for i, nc := range c.Namespaces() {
				np := fmt.Sprintf("%s/ns[%d]", path, i)
				note(nc, np, c, false)
				ns, ok := nc.Node().(node.Namespace)
				if !ok {
					s.problem("namespace-list-holds-other-kind", "%s is not a namespace node", np)
					continue
				}
				if n.InScope == nil {
					n.InScope = map[string]string{}
				}
				if _, dup := n.InScope[ns.Prefix()]; dup {
					s.problem("namespace-prefix-twice", "%s: prefix %q listed twice on one element", np, ns.Prefix())
				}
				n.InScope[ns.Prefix()] = ns.NamespaceValue()
			}
			for i, ac := range c.Attributes() {
				ap := fmt.Sprintf("%s/@[%d]", path, i)
				if KindOf(ac.Node()) != KAttr {
					s.problem("attribute-list-holds-other-kind", "%s is not an attribute", ap)
					continue
				}
				n.Attrs = append(n.Attrs, visit(ac, ap, c, false))
			}
			for i, cc := range c.Children() {
				n.Children = append(n.Children, visit(cc, fmt.Sprintf("%s/%d", path, i), c, false))
			}
		} else {
			if len(c.Namespaces()) != 0 || len(c.Attributes()) != 0 || len(c.Children()) != 0 {
				s.problem("leaf-has-lists", "%s (%s) lists namespaces/attributes/children", path, n.Kind)
			}
		}
		return n
	}
	s.Tree = visit(root, "", nil, true)
	return s
}

func (s *Snapshot) problem(sig, format string, args ...any) {
	if len(s.Problems) < 8 {
		s.Problems = append(s.Problems, Problem{sig, fmt.Sprintf(format, args...)})
	}
}

// PathOf returns the index path of a cursor within the snapshot, or "?".
func (s *Snapshot) PathOf(c store.Cursor) string {
	for i, x := range s.Cursors {
		if x == c {
			return s.Paths[i] + "#" + KindOf(c.Node()).String()
		}
	}
	return "?"
}

// Subtree converts the subtree below (and including) a cursor into an abstract
// node, without structural checks.
func Subtree(c store.Cursor) *Node {
	raw := c.Node()
	n := &Node{Kind: KindOf(raw)}
	switch n.Kind {
	case KElem:
		e := raw.(node.Element)
		n.Space, n.Local = e.Space(), e.Local()
		for _, ac := range c.Attributes() {
			if a, ok := ac.Node().(node.Attribute); ok {
				n.Attrs = append(n.Attrs, &Node{Kind: KAttr, Space: a.Space(), Local: a.Local(), Value: a.AttributeValue()})
			}
		}
		for _, cc := range c.Children() {
			n.Children = append(n.Children, Subtree(cc))
		}
	case KRoot:
		for _, cc := range c.Children() {
			n.Children = append(n.Children, Subtree(cc))
		}
	case KAttr:
		a := raw.(node.Attribute)
		n.Space, n.Local, n.Value = a.Space(), a.Local(), a.AttributeValue()
	case KText:
		n.Value = raw.(node.CharData).CharDataValue()
	case KComment:
		n.Value = raw.(node.Comment).CommentValue()
	case KPI:
		pi := raw.(node.ProcInst)
		n.Target, n.Value = pi.Target(), pi.ProcInstValue()
	case KNS:
		ns := raw.(node.Namespace)
		n.Local, n.Value = ns.Prefix(), ns.NamespaceValue()
	}
	return n
}

package model

import (
	"bytes"
	"encoding/json"
	"io"
	"testing"

	"verif/simkit"
)

// The strict JSON reference reader is the oracle for faulted texts in C16; it
// must agree with encoding/json about validity on everything it judges.
func stdValid(text []byte) bool {
	d := json.NewDecoder(bytes.NewReader(text))
	n := 0
	for {
		var v any
		err := d.Decode(&v)
		if err == io.EOF {
			return n > 0
		}
		if err != nil {
			return false
		}
		n++
	}
}

func TestJSONRefAgreesWithEncodingJSON(t *testing.T) {
	hostile := []byte(`{}[],:"\ 0123456789.eE+-tfnrul` + "\n\t")
	for seed := uint64(1); seed <= 3000; seed++ {
		tp := simkit.NewTape(seed)
		cfg := DrawJSONConfig(tp)
		text := SerialiseJSON(tp, cfg, GenJSON(tp, cfg))
		if _, st := JSONRef(text); st != JSONOK {
			t.Fatalf("seed %d: clean text judged %d: %q", seed, st, text)
		}
		for k := 0; k < 20; k++ {
			mut := append([]byte(nil), text...)
			switch tp.Draw(3) {
			case 0:
				if len(mut) > 0 {
					mut = mut[:tp.Draw(len(mut))]
				}
			case 1:
				if len(mut) > 0 {
					mut[tp.Draw(len(mut))] = hostile[tp.Draw(len(hostile))]
				}
			case 2:
				i := tp.Draw(len(mut) + 1)
				mut = append(append(append([]byte(nil), mut[:i]...), hostile[tp.Draw(len(hostile))]), mut[i:]...)
			}
			_, st := JSONRef(mut)
			if st == JSONUnjudged {
				continue
			}
			if got, want := st == JSONOK, stdValid(mut); got != want {
				t.Fatalf("seed %d: reference says valid=%v, encoding/json says %v for %q", seed, got, want, mut)
			}
		}
	}
}

func TestNumberTextOK(t *testing.T) {
	cases := []struct {
		text string
		v    float64
		ok   bool
	}{{"1", 1, true}, {"1.0", 1, true}, {"1e+21", 1e21, true}, {"1000000000000000000000", 1e21, true}, {"0.1", 0.1, true}, {"0.10000000000000001", 0.1, false}, {"2", 1, false}, {"1e21 ", 1e21, false}, {"-0", 0, false}}
	for _, c := range cases {
		bits := func(f float64) uint64 { var b [8]byte; _ = b; return mathBits(f) }(c.v)
		if got := NumberTextOK(c.text, bits); got != c.ok {
			t.Errorf("NumberTextOK(%q, %v) = %v, want %v", c.text, c.v, got, c.ok)
		}
	}
}

package model

import (
	"fmt"
	"strings"

	"golang.org/x/text/encoding/charmap"

	"verif/simkit"
)

// the ASCII-compatible 8-bit charsets exercised besides UTF-8
var charmaps = map[string]*charmap.Charmap{
	"windows-1252": charmap.Windows1252,
	"ISO-8859-15":  charmap.ISO8859_15,
	"ISO-8859-2":   charmap.ISO8859_2,
	"windows-1251": charmap.Windows1251,
	"KOI8-R":       charmap.KOI8R,
}

func encodeRune(r rune, enc string) (byte, bool) {
	switch enc {
	case "ISO-8859-1":
		// the charset reader maps this label to windows-1252 (WHATWG); only the
		// range on which both agree is used
		if r < 0x80 || (r >= 0xA0 && r <= 0xFF) {
			return byte(r), true
		}
		return 0, false
	case "US-ASCII":
		return byte(r), r < 0x80
	}
	if cm, ok := charmaps[enc]; ok {
		if r < 0x80 {
			return byte(r), true
		}
		return cm.EncodeRune(r)
	}
	return 0, false
}

// XMLGenConfig is the per-run swarm configuration of the XML generator.
type XMLGenConfig struct {
	MaxNodes    int
	MaxDepth    int
	Namespaces  bool
	CDATA       bool
	Refs        bool
	Encoding    string // "", "UTF-8", "ISO-8859-1", "windows-1252", "US-ASCII"
	Prolog      bool   // comments/PIs/whitespace/doctype around the document element
	XMLDecl     bool
	NonASCII    bool
	EmptyCDATA  bool
	MixedText   bool
	NSMix       bool // default namespace declared and undeclared again and again (xmlns="" below namespaced parents)
	Entities    bool // the reader is given the custom entity ent = "EV"; some "EV" are written as &ent;
	Pad         int  // > 0: a comment of about that many bytes near the start pushes later content across internal buffer boundaries
	LangBias    bool // many xml:lang attributes (for lang() workloads)
	Wide        bool // some elements get 17-60 children (size thresholds)
}

func DrawXMLConfig(t *simkit.Tape) XMLGenConfig {
	c := XMLGenConfig{}
	c.MaxNodes = []int{4, 8, 16, 40}[t.Pick(2, 3, 3, 2)]
	c.MaxDepth = t.Range(1, 6)
	c.Namespaces = t.Bool(2, 3)
	c.CDATA = t.Bool(1, 2)
	c.Refs = t.Bool(2, 3)
	c.NonASCII = t.Bool(1, 2)
	c.Prolog = t.Bool(1, 2)
	c.XMLDecl = t.Bool(1, 2)
	c.MixedText = t.Bool(2, 3)
	c.EmptyCDATA = c.CDATA && t.Bool(1, 6)
	c.Entities = t.Bool(1, 6)
	if t.Bool(1, 20) {
		c.Pad = []int{4000, 4080, 4090, 4096, 8180, 8192}[t.Draw(6)] - t.Draw(40)
	}
	c.LangBias = t.Bool(1, 5)
	c.Wide = t.Bool(1, 8)
	if c.XMLDecl {
		c.Encoding = []string{"", "UTF-8", "ISO-8859-1", "windows-1252", "US-ASCII", "ISO-8859-15", "ISO-8859-2", "windows-1251", "KOI8-R"}[t.Pick(6, 4, 2, 2, 2, 1, 1, 1, 1)]
	}
	return c
}

// "urn:a"+"bc" == "urn:ab"+"c": expanded names that collide when URI and local name are glued without a separator
var uriPool = []string{"urn:a", "urn:b", "http://x.example/y?z=1&w=2", "urn:c:d", "urn:ab"}
var prefixPool = []string{"p", "q", "r", "xs"}
var widePrefixes = []string{"a0", "n1", "n2", "n3", "n4", "n5", "n6", "n7", "n8", "w", "xa", "xmk", "xmm", "y", "zz", "B"}
var localPool = []string{"a", "b", "c", "item", "x-y", "n.1", "_u", "bc"}
var localPoolNA = []string{"é", "日本", "ñame"}

type xmlGen struct {
	t     *simkit.Tape
	cfg   XMLGenConfig
	nodes int
}

func encodable(r rune, enc string) bool {
	if enc == "" || enc == "UTF-8" {
		return true
	}
	_, ok := encodeRune(r, enc)
	return ok
}

func (g *xmlGen) name() string {
	if g.cfg.NonASCII && g.cfg.Encoding != "US-ASCII" && g.t.Bool(1, 6) {
		cands := []string{}
		for _, n := range []string{"é", "ñame", "日本", "Łódź", "жук", "Šo"} {
			ok := true
			for _, r := range n {
				if !encodable(r, g.cfg.Encoding) {
					ok = false
				}
			}
			if ok {
				cands = append(cands, n)
			}
		}
		if len(cands) > 0 {
			return cands[g.t.Draw(len(cands))]
		}
	}
	return localPool[g.t.Draw(len(localPool))]
}

var textAlphabet = []rune{'a', 'b', ' ', 'z', '1', '\n', '\t', '&', '<', '>', '"', '\'', ']', '-', '?', ';', '#', 'x'}
var textAlphabetNA = []rune{'é', 'ß', 'ÿ', '€', '日', '😀', ' ', ' '}

// text draws a character-data string. crOK allows a carriage return (which the
// serialiser must write as &#13;).
func (g *xmlGen) text(max int, restrict bool) string {
	n := 1 + g.t.Geo(max)
	var b strings.Builder
	for i := 0; i < n; i++ {
		if g.t.Bool(1, 12) {
			b.WriteString("]]>")
			continue
		}
		if g.t.Bool(1, 30) {
			b.WriteString("?>") // legal in text and attribute values (sanitised out of PIs)
			continue
		}
		if g.cfg.Entities && !restrict && g.t.Bool(1, 10) {
			b.WriteString("EV")
			continue
		}
		if !restrict && g.t.Bool(1, 25) {
			b.WriteRune('\r')
			continue
		}
		if g.cfg.NonASCII && g.t.Bool(1, 5) {
			r := textAlphabetNA[g.t.Draw(len(textAlphabetNA))]
			if restrict && !encodable(r, g.cfg.Encoding) {
				r = 'e'
			}
			b.WriteRune(r)
			continue
		}
		b.WriteRune(textAlphabet[g.t.Draw(len(textAlphabet))])
	}
	return b.String()
}

// GenXML draws an abstract document.
func GenXML(t *simkit.Tape, cfg XMLGenConfig) *Node {
	g := &xmlGen{t: t, cfg: cfg}
	root := &Node{Kind: KRoot}
	if cfg.Pad > 0 {
		fill := "p"
		if cfg.NonASCII && cfg.Encoding != "US-ASCII" {
			// one byte in the 8-bit charsets, two in UTF-8: buffer boundaries fall inside decoded characters
			for _, c := range []string{"é", "ж", "Ł"} {
				if encodable([]rune(c)[0], cfg.Encoding) {
					fill = c
					break
				}
			}
		}
		root.Children = append(root.Children, &Node{Kind: KComment, Value: strings.Repeat(fill, cfg.Pad/len(fill))})
	}
	if cfg.Prolog {
		root.Children = append(root.Children, g.misc(2)...)
	}
	scope := map[string]string{"xml": XMLNS}
	root.Children = append(root.Children, g.element(1, scope))
	if cfg.Prolog {
		root.Children = append(root.Children, g.misc(2)...)
	}
	return root
}

func (g *xmlGen) misc(max int) []*Node {
	var out []*Node
	n := g.t.Geo(max)
	for i := 0; i < n; i++ {
		if g.t.Bool(1, 2) {
			out = append(out, g.comment())
		} else {
			out = append(out, g.pi())
		}
	}
	return out
}

func (g *xmlGen) comment() *Node {
	v := g.text(6, true)
	v = strings.ReplaceAll(v, "\r", "")
	for strings.Contains(v, "--") {
		v = strings.ReplaceAll(v, "--", "-")
	}
	v = strings.TrimSuffix(v, "-")
	if g.t.Bool(1, 8) {
		v = ""
	}
	return &Node{Kind: KComment, Value: v}
}

func (g *xmlGen) pi() *Node {
	target := []string{"pi", "xml-stylesheet", "t", "php"}[g.t.Draw(4)]
	v := g.text(6, true)
	v = strings.ReplaceAll(v, "\r", "")
	for strings.Contains(v, "?>") {
		v = strings.ReplaceAll(v, "?>", "?")
	}
	v = strings.TrimLeft(v, " \t\n")
	if g.t.Bool(1, 6) {
		v = ""
	}
	return &Node{Kind: KPI, Target: target, Value: v}
}

func copyScope(m map[string]string) map[string]string {
	o := make(map[string]string, len(m)+2)
	for k, v := range m {
		o[k] = v
	}
	return o
}

func (g *xmlGen) element(depth int, parentScope map[string]string) *Node {
	g.nodes++
	e := &Node{Kind: KElem}
	scope := copyScope(parentScope)
	if g.cfg.Namespaces {
		nd := g.t.Pick(5, 3, 1)
		kindW := []int{6, 6, 2, 1}
		if g.cfg.NSMix {
			// namespaced parents with several children in no namespace and back
			nd = g.t.Pick(2, 4, 3)
			kindW = []int{3, 6, 7, 1}
		}
		if g.cfg.NSMix && depth == 1 && nd == 0 {
			nd = 1
		}
		for i := 0; i < nd; i++ {
			k := g.t.Pick(kindW...)
			if g.cfg.NSMix && depth == 1 && i == 0 {
				k = 0 // the document element declares a prefix
			}
			switch k {
			case 3: // the legal explicit declaration of the xml prefix
				if hasDecl(e.Decls, "xml") {
					continue
				}
				e.Decls = append(e.Decls, Decl{"xml", XMLNS})
			case 0: // prefixed declaration (possibly re-binding)
				p := prefixPool[g.t.Draw(len(prefixPool))]
				u := uriPool[g.t.Draw(len(uriPool))]
				if hasDecl(e.Decls, p) {
					continue
				}
				e.Decls = append(e.Decls, Decl{p, u})
				scope[p] = u
			case 1: // default namespace
				if hasDecl(e.Decls, "") {
					continue
				}
				u := uriPool[g.t.Draw(len(uriPool))]
				e.Decls = append(e.Decls, Decl{"", u})
				scope[""] = u
			case 2: // undeclare default
				if hasDecl(e.Decls, "") {
					continue
				}
				e.Decls = append(e.Decls, Decl{"", ""})
				delete(scope, "")
			}
		}
	}
	if g.cfg.Namespaces && g.cfg.Wide && g.t.Bool(1, 6) {
		// many declarations on one element (lookup structures switch strategy with
		// size); prefixes that sort before and after "xml"
		k := 6 + g.t.Draw(9)
		off := g.t.Draw(len(widePrefixes))
		for i := 0; i < k; i++ {
			p := widePrefixes[(off+i)%len(widePrefixes)]
			if hasDecl(e.Decls, p) {
				continue
			}
			u := uriPool[g.t.Draw(len(uriPool))]
			e.Decls = append(e.Decls, Decl{p, u})
			scope[p] = u
		}
	}
	e.InScope = scope
	// element name: any in-scope binding except xml; unprefixed follows the default
	cands := []string{""}
	for _, p := range prefixPool {
		if _, ok := scope[p]; ok {
			cands = append(cands, p)
		}
	}
	e.Prefix = cands[g.t.Draw(len(cands))]
	if g.cfg.NSMix && len(cands) > 1 && g.t.Bool(3, 4) {
		// prefixed (namespaced) parents with unprefixed children, level by level
		if depth%2 == 1 {
			e.Prefix = cands[1+g.t.Draw(len(cands)-1)]
		} else {
			e.Prefix = ""
		}
	}
	e.Local = g.name()
	e.Space = scope[e.Prefix] // "" when unprefixed and no default
	// attributes
	if g.cfg.LangBias && g.t.Bool(1, 2) {
		e.Attrs = append(e.Attrs, &Node{Kind: KAttr, Prefix: "xml", Space: XMLNS, Local: "lang", Value: []string{"en", "en-US", "de", "fr", "en-GB"}[g.t.Draw(5)]})
		g.nodes++
	}
	na := g.t.Pick(4, 3, 2, 1)
	attrBudget := g.cfg.MaxNodes
	if g.cfg.Wide && g.t.Bool(1, 4) {
		na = 4 + g.t.Draw(12) // 5-16 attributes: slice-capacity thresholds
		attrBudget = g.nodes + na + 1
	}
	for i := 0; i < na && g.nodes < attrBudget; i++ {
		a := &Node{Kind: KAttr}
		acands := []string{""}
		for _, p := range prefixPool {
			if _, ok := scope[p]; ok {
				acands = append(acands, p)
			}
		}
		if g.t.Bool(1, 8) {
			a.Prefix, a.Space = "xml", XMLNS
			a.Local = []string{"lang", "space"}[g.t.Draw(2)]
			a.Value = []string{"en", "en-US", "de", "preserve"}[g.t.Draw(4)]
		} else {
			a.Prefix = acands[g.t.Draw(len(acands))]
			if a.Prefix != "" {
				a.Space = scope[a.Prefix]
			}
			a.Local = g.name()
			if na > 4 {
				a.Local = fmt.Sprintf("%s%d", a.Local, i)
			}
			a.Value = g.text(5, false)
			if g.t.Bool(1, 6) {
				a.Value = ""
			}
		}
		dup := false
		for _, o := range e.Attrs {
			if o.Space == a.Space && o.Local == a.Local {
				dup = true
			}
		}
		if dup {
			continue
		}
		g.nodes++
		e.Attrs = append(e.Attrs, a)
	}
	// children
	if depth < g.cfg.MaxDepth {
		nc := g.t.Geo(5)
		if g.t.Bool(1, 3) {
			nc += g.t.Draw(5)
		}
		budget := g.cfg.MaxNodes
		if g.cfg.Wide && g.t.Bool(1, 4) {
			nc = 17 + g.t.Draw(44)
			budget = g.nodes + nc + 4
			if budget < g.cfg.MaxNodes {
				budget = g.cfg.MaxNodes
			}
		}
		lastText := false
		for i := 0; i < nc && g.nodes < budget; i++ {
			switch g.t.Pick(4, 3, 1, 1) {
			case 0:
				e.Children = append(e.Children, g.element(depth+1, scope))
				lastText = false
			case 1:
				if lastText {
					continue
				}
				g.nodes++
				e.Children = append(e.Children, &Node{Kind: KText, Value: g.text(8, false)})
				lastText = true
			case 2:
				g.nodes++
				e.Children = append(e.Children, g.comment())
				lastText = false
			case 3:
				g.nodes++
				e.Children = append(e.Children, g.pi())
				lastText = false
			}
		}
	}
	return e
}

func hasDecl(ds []Decl, p string) bool {
	for _, d := range ds {
		if d.Prefix == p {
			return true
		}
	}
	return false
}

// Serialised is an XML text together with what the harness knows about it
// without consulting any parser.
type Serialised struct {
	Bytes   []byte
	RootEnd int   // offset just after the document element's end tag
	Epilog  []Ext // extents of epilog comments/PIs (byte offsets)
	Desc    string
}

type Ext struct{ Start, End int }

type xmlSer struct {
	t   *simkit.Tape
	cfg XMLGenConfig
	b   strings.Builder
}

func (s *xmlSer) ws(min int) {
	n := min + s.t.Geo(2)
	for i := 0; i < n; i++ {
		s.b.WriteString([]string{" ", "\n", "\t", "\r\n"}[s.t.Pick(6, 2, 1, 1)])
	}
}

func (s *xmlSer) charRef(r rune) {
	if s.t.Bool(1, 2) {
		fmt.Fprintf(&s.b, "&#%d;", r)
	} else if s.t.Bool(1, 2) {
		fmt.Fprintf(&s.b, "&#x%X;", r)
	} else {
		fmt.Fprintf(&s.b, "&#x%x;", r)
	}
}

// chars writes character data (text or attribute value).
func (s *xmlSer) chars(v string, attrQuote rune) {
	rs := []rune(v)
	if len(rs) == 0 && attrQuote == 0 && s.cfg.EmptyCDATA {
		s.b.WriteString("<![CDATA[]]>")
	}
	for i := 0; i < len(rs); i++ {
		r := rs[i]
		if s.cfg.Entities && r == 'E' && i+1 < len(rs) && rs[i+1] == 'V' && s.t.Bool(2, 3) {
			s.b.WriteString("&ent;")
			i++
			continue
		}
		// CDATA run (text only)
		if attrQuote == 0 && s.cfg.CDATA && s.t.Bool(1, 5) {
			l := s.t.Range(0, 6)
			if l == 0 && !s.cfg.EmptyCDATA {
				l = 1
			}
			j := i + l
			if j > len(rs) {
				j = len(rs)
			}
			run := string(rs[i:j])
			ok := !strings.Contains(run, "]]>") && !strings.Contains(run, "\r")
			for _, x := range run {
				if !encodable(x, s.cfg.Encoding) {
					ok = false
				}
			}
			if ok {
				s.b.WriteString("<![CDATA[" + run + "]]>")
				if j > i {
					i = j - 1
					continue
				}
			}
		}
		must := !encodable(r, s.cfg.Encoding)
		switch {
		case r == '\r':
			s.b.WriteString([]string{"&#13;", "&#xD;"}[s.t.Draw(2)])
		case r == '\n' && attrQuote == 0:
			form := []string{"\n", "\r\n", "\r", "&#10;"}[s.t.Pick(4, 2, 1, 1)]
			if form == "\n" && strings.HasSuffix(s.b.String(), "\r") {
				form = "\r\n" // a literal CR followed by LF would read as one line end
			}
			s.b.WriteString(form)
		case (r == '\n' || r == '\t') && attrQuote != 0:
			fmt.Fprintf(&s.b, "&#%d;", r)
		case r == '<':
			s.b.WriteString([]string{"&lt;", "&#60;", "&#x3c;"}[s.t.Pick(4, 1, 1)])
		case r == '&':
			s.b.WriteString([]string{"&amp;", "&#38;"}[s.t.Pick(4, 1)])
		case r == '>':
			// always safe to escape; literal only when it cannot complete "]]>"
			if s.t.Bool(1, 2) && !strings.HasSuffix(s.b.String(), "]]") {
				s.b.WriteRune('>')
			} else {
				s.b.WriteString("&gt;")
			}
		case r == '"' && (attrQuote == '"' || s.t.Bool(1, 3)):
			s.b.WriteString("&quot;")
		case r == '\'' && (attrQuote == '\'' || s.t.Bool(1, 3)):
			s.b.WriteString("&apos;")
		case must || (s.cfg.Refs && s.t.Bool(1, 10)):
			s.charRef(r)
		default:
			s.b.WriteRune(r)
		}
	}
}

func qname(prefix, local string) string {
	if prefix == "" {
		return local
	}
	return prefix + ":" + local
}

func (s *xmlSer) node(n *Node) {
	switch n.Kind {
	case KText:
		s.chars(n.Value, 0)
	case KComment:
		s.b.WriteString("<!--" + n.Value + "-->")
	case KPI:
		if n.Value == "" {
			s.b.WriteString("<?" + n.Target)
			if s.t.Bool(1, 3) {
				s.b.WriteString(" ")
			}
			s.b.WriteString("?>")
		} else {
			s.b.WriteString("<?" + n.Target)
			s.ws(1)
			s.b.WriteString(n.Value + "?>")
		}
	case KElem:
		s.b.WriteString("<" + qname(n.Prefix, n.Local))
		// declarations and attributes in a drawn interleaving
		type item struct {
			name, val string
		}
		items := []item{}
		for _, d := range n.Decls {
			if d.Prefix == "" {
				items = append(items, item{"xmlns", d.URI})
			} else {
				items = append(items, item{"xmlns:" + d.Prefix, d.URI})
			}
		}
		nd := len(items)
		for _, a := range n.Attrs {
			items = append(items, item{qname(a.Prefix, a.Local), a.Value})
		}
		// move declarations behind some attributes (document order of attributes is kept)
		if nd > 0 && len(items) > nd && s.t.Bool(1, 2) {
			k := s.t.Range(1, len(items)-nd)
			rot := append([]item{}, items[nd:nd+k]...)
			rot = append(rot, items[:nd]...)
			rot = append(rot, items[nd+k:]...)
			items = rot
		}
		for _, it := range items {
			s.ws(1)
			s.b.WriteString(it.name)
			if s.t.Bool(1, 8) {
				s.b.WriteString(" ")
			}
			s.b.WriteString("=")
			if s.t.Bool(1, 8) {
				s.b.WriteString(" ")
			}
			q := '"'
			if s.t.Bool(1, 3) {
				q = '\''
			}
			s.b.WriteRune(q)
			s.chars(it.val, q)
			s.b.WriteRune(q)
		}
		if s.t.Bool(1, 6) {
			s.ws(1)
		}
		if len(n.Children) == 0 && s.t.Bool(1, 2) {
			s.b.WriteString("/>")
			return
		}
		s.b.WriteString(">")
		for _, c := range n.Children {
			s.node(c)
		}
		s.b.WriteString("</" + qname(n.Prefix, n.Local))
		if s.t.Bool(1, 6) {
			s.ws(1)
		}
		s.b.WriteString(">")
	}
}

// SerialiseXML writes the abstract document with tape-drawn variation.
func SerialiseXML(t *simkit.Tape, cfg XMLGenConfig, root *Node) *Serialised {
	s := &xmlSer{t: t, cfg: cfg}
	out := &Serialised{}
	if cfg.XMLDecl {
		s.b.WriteString(`<?xml version="1.0"`)
		if cfg.Encoding != "" {
			label := cfg.Encoding
			switch t.Draw(3) {
			case 1:
				label = strings.ToLower(label)
			case 2:
				switch label {
				case "ISO-8859-1":
					label = "latin1"
				case "windows-1252":
					label = "cp1252"
				case "ISO-8859-2":
					label = "latin2"
				case "windows-1251":
					label = "cp1251"
				case "KOI8-R":
					label = "koi8"
				}
			}
			q := []string{`"`, `'`}[t.Draw(2)]
			s.b.WriteString(" encoding=" + q + label + q)
		}
		if t.Bool(1, 4) {
			s.b.WriteString(` standalone="yes"`)
		}
		if t.Bool(1, 4) {
			s.b.WriteString(" ")
		}
		s.b.WriteString("?>")
	}
	seenElem := false
	doctypeDone := false
	for _, c := range root.Children {
		if c.Kind == KElem {
			if cfg.Prolog && !doctypeDone && t.Bool(1, 3) {
				qn := qname(c.Prefix, c.Local)
				// external identifiers and internal subsets: declarations the reader
				// does not interpret, with '>' and quotes inside literals and comments
				s.b.WriteString("<!DOCTYPE " + qn + []string{
					"",
					` SYSTEM "doc.dtd"`,
					` PUBLIC "-//X//DTD Y//EN" "doc.dtd"`,
					" [<!ELEMENT " + qn + " ANY>]",
					` [<!ENTITY arrow "->">]`,
					` [<!ENTITY q 'a"b'> <!-- c > d --> ]`,
					" [<!ATTLIST " + qn + ` a CDATA "d>"> <!ENTITY e "x"><!ENTITY f '&e;>'>]`,
					" [\n<!ENTITY % pe \"<!ENTITY g 'h'>\">\n]",
				}[t.Pick(6, 2, 2, 2, 2, 2, 2, 1)] + ">")
				doctypeDone = true
				if t.Bool(1, 2) {
					s.ws(1)
				}
			}
			s.node(c)
			seenElem = true
			out.RootEnd = s.b.Len()
			continue
		}
		if cfg.Prolog && t.Bool(1, 2) {
			s.ws(1)
		}
		start := s.b.Len()
		s.node(c)
		if seenElem {
			out.Epilog = append(out.Epilog, Ext{start, s.b.Len()})
		}
	}
	if cfg.Prolog && t.Bool(1, 2) {
		s.ws(1)
	}
	text := s.b.String()
	// transcode
	switch cfg.Encoding {
	case "ISO-8859-1", "windows-1252", "US-ASCII", "ISO-8859-15", "ISO-8859-2", "windows-1251", "KOI8-R":
		// offsets must be recomputed: every rune becomes one byte
		bs := make([]byte, 0, len(text))
		conv := func(off int) int { return len([]rune(text[:off])) }
		out.RootEnd = conv(out.RootEnd)
		for i := range out.Epilog {
			out.Epilog[i] = Ext{conv(out.Epilog[i].Start), conv(out.Epilog[i].End)}
		}
		for _, r := range text {
			b, ok := encodeRune(r, cfg.Encoding)
			if !ok {
				panic(fmt.Sprintf("serialiser bug: rune %U not encodable in %s", r, cfg.Encoding))
			}
			bs = append(bs, b)
		}
		out.Bytes = bs
	default:
		out.Bytes = []byte(text)
	}
	return out
}

// ExpectedAfterTruncation returns the abstract document denoted by the prefix
// of length k, or nil if the prefix is not a complete document.
func ExpectedAfterTruncation(root *Node, ser *Serialised, k int) *Node {
	if k < ser.RootEnd {
		return nil
	}
	keep := 0
	for _, e := range ser.Epilog {
		if e.End <= k {
			keep++
		} else if e.Start < k {
			return nil // cut inside an epilog comment/PI
		}
	}
	out := &Node{Kind: KRoot}
	seen := false
	ep := 0
	for _, c := range root.Children {
		if c.Kind == KElem {
			seen = true
			out.Children = append(out.Children, c)
			continue
		}
		if !seen {
			out.Children = append(out.Children, c)
		} else {
			if ep < keep {
				out.Children = append(out.Children, c)
			}
			ep++
		}
	}
	return out
}

package model

import (
	"fmt"
	"strings"

	"verif/simkit"
)

// The expression workload generator: type-directed random XPath 1.0
// expressions. It is NOT an oracle; it only promises that what it produces is
// well-typed (a node-set wherever XPath requires one) and uses bound names only.

type XType int

const (
	TNodeSet XType = iota
	TNum
	TStr
	TBool
)

type FuncSig struct {
	Name  string
	Arity int
	Ret   XType
	Args  []XType
}

type ExprEnv struct {
	ElemNames []string
	AttrNames []string
	Prefixes  []string // prefixes bound in the query's namespace map
	PITargets []string
	NumVars   []string
	StrVars   []string
	BoolVars  []string
	NSVars    []string
	Funcs     []FuncSig
	Boundary  bool // use boundary-class numeric literals (C15)
	NoNSAxis  bool
	Literals  []string
}

type exprGen struct {
	t      *simkit.Tape
	env    *ExprEnv
	budget int
}

var axes = []string{"child", "descendant", "parent", "ancestor", "following-sibling", "preceding-sibling", "following", "preceding", "attribute", "namespace", "self", "descendant-or-self", "ancestor-or-self"}

func pick(t *simkit.Tape, xs []string) string {
	if len(xs) == 0 {
		return "x"
	}
	return xs[t.Draw(len(xs))]
}

func (g *exprGen) ws() string {
	if g.t.Bool(1, 10) {
		return []string{" ", "\t", "\n", "  ", "\r\n"}[g.t.Pick(6, 2, 2, 1, 1)]
	}
	return ""
}

func (g *exprGen) nodeTest(attr bool) string {
	names := g.env.ElemNames
	if attr {
		names = g.env.AttrNames
	}
	switch g.t.Pick(5, 2, 2, 1, 1, 1, 1) {
	case 0:
		return pick(g.t, names)
	case 1:
		return "*"
	case 2:
		if attr {
			return "*"
		}
		return []string{"node()", "text()", "comment()", "processing-instruction()"}[g.t.Pick(3, 3, 1, 1)]
	case 3:
		if len(g.env.Prefixes) > 0 {
			return pick(g.t, g.env.Prefixes) + ":" + pick(g.t, names)
		}
		return pick(g.t, names)
	case 4:
		if len(g.env.Prefixes) > 0 {
			return pick(g.t, g.env.Prefixes) + ":*"
		}
		return "*"
	case 5:
		return "*:" + pick(g.t, names)
	default:
		if !attr && len(g.env.PITargets) > 0 {
			return "processing-instruction('" + pick(g.t, g.env.PITargets) + "')"
		}
		return "node()"
	}
}

func (g *exprGen) predicates(depth int) string {
	var b strings.Builder
	n := g.t.Pick(6, 3, 1)
	for i := 0; i < n && g.budget > 0; i++ {
		b.WriteString("[" + g.ws())
		switch g.t.Pick(3, 2, 3, 1, 1) {
		case 4:
			// numeric predicates that select nothing or need rounding care
			b.WriteString([]string{"0", "-1", "-2", "1.5", "0.5", "1.0", "01", "99999999999", "1 div 0", "0 div 0", "-0", "2 - 1", "1e0"}[g.t.Pick(2, 3, 2, 2, 1, 2, 1, 1, 1, 1, 1, 1, 0)])
		case 0:
			fmt.Fprintf(&b, "%d", 1+g.t.Draw(3))
		case 1:
			b.WriteString([]string{"last()", "position() = last()", "position() > 1", "position() mod 2 = 1", "last() - 1"}[g.t.Draw(5)])
		case 2:
			b.WriteString(g.expr(TBool, depth+1))
		case 3:
			b.WriteString(g.expr(TNodeSet, depth+1))
		}
		b.WriteString(g.ws() + "]")
	}
	return b.String()
}

func (g *exprGen) step(depth int) string {
	g.budget--
	switch g.t.Pick(6, 6, 1, 1, 2) {
	case 0:
		return g.nodeTest(false) + g.predicates(depth)
	case 1:
		ax := axes[g.t.Draw(len(axes))]
		if ax == "namespace" && g.env.NoNSAxis {
			ax = "child"
		}
		nt := g.nodeTest(ax == "attribute")
		if ax == "namespace" {
			nt = []string{"*", "node()", pick(g.t, append([]string{"xml"}, g.env.Prefixes...))}[g.t.Draw(3)]
		}
		return ax + g.ws() + "::" + g.ws() + nt + g.predicates(depth)
	case 2:
		return "."
	case 3:
		return ".."
	default:
		return "@" + g.nodeTest(true) + g.predicates(depth)
	}
}

func (g *exprGen) relPath(depth int) string {
	n := 1 + g.t.Geo(3)
	var b strings.Builder
	for i := 0; i < n; i++ {
		if i > 0 {
			if g.t.Bool(1, 4) {
				b.WriteString("//")
			} else {
				b.WriteString("/")
			}
		}
		b.WriteString(g.step(depth))
	}
	return b.String()
}

func (g *exprGen) nodeset(depth int) string {
	g.budget--
	if depth > 3 || g.budget <= 0 {
		return []string{"//*", ".", "/", "*", "//text()", "//@*"}[g.t.Draw(6)]
	}
	w := []int{5, 4, 3, 3, 2, 2, 2, 1}
	if len(g.env.NSVars) == 0 {
		w[4] = 0
		w[6] = 0
	}
	nsFuncs := []FuncSig{}
	for _, f := range g.env.Funcs {
		if f.Ret == TNodeSet {
			nsFuncs = append(nsFuncs, f)
		}
	}
	if len(nsFuncs) == 0 {
		w[7] = 0
	}
	switch g.t.Pick(w...) {
	case 0:
		return g.relPath(depth)
	case 1:
		return "//" + g.relPath(depth)
	case 2:
		if g.t.Bool(1, 5) {
			return "/"
		}
		return "/" + g.relPath(depth)
	case 3:
		return g.nodeset(depth+1) + g.ws() + "|" + g.ws() + g.nodeset(depth+1)
	case 4:
		v := "$" + pick(g.t, g.env.NSVars)
		switch g.t.Pick(3, 2, 2) {
		case 1:
			return v + "/" + g.relPath(depth+1)
		case 2:
			return v + g.predicates(depth+1)
		}
		return v
	case 5:
		inner := "(" + g.nodeset(depth+1) + ")" + g.predicates(depth+1)
		if g.t.Bool(1, 2) {
			return inner + []string{"/", "//"}[g.t.Pick(3, 1)] + g.relPath(depth+1)
		}
		return inner
	case 6:
		return "$" + pick(g.t, g.env.NSVars) + g.ws() + "|" + g.ws() + g.nodeset(depth+1)
	default:
		f := nsFuncs[g.t.Draw(len(nsFuncs))]
		call := g.call(f, depth)
		if g.t.Bool(1, 3) {
			return call + "/" + g.relPath(depth+1)
		}
		return call
	}
}

func (g *exprGen) call(f FuncSig, depth int) string {
	var args []string
	for i := 0; i < f.Arity; i++ {
		at := XType(g.t.Draw(4))
		if i < len(f.Args) {
			at = f.Args[i]
		}
		args = append(args, g.expr(at, depth+1))
	}
	return f.Name + "(" + strings.Join(args, ","+g.ws()) + ")"
}

var boundaryNums = []string{"0", "-0", "1 div 0", "-1 div 0", "0 div 0", "0.5", "-0.5", "1.5", "2.5", "-1.5", "9007199254740993", "9223372036854775808", "1000000000000000000000000000000", "0.0000001", ".5", "3", "-3", "100"}

func (g *exprGen) num(depth int) string {
	g.budget--
	if depth > 3 || g.budget <= 0 {
		return fmt.Sprint(g.t.Draw(5))
	}
	if g.env.Boundary && g.t.Bool(1, 3) {
		return "(" + boundaryNums[g.t.Draw(len(boundaryNums))] + ")"
	}
	w := []int{4, 3, 3, 2, 2, 2, 2, 1, 1}
	if len(g.env.NumVars) == 0 {
		w[7] = 0
	}
	switch g.t.Pick(w...) {
	case 0:
		return []string{"0", "1", "2", "3", "10", "0.5", "1.5", ".25", "7"}[g.t.Draw(9)]
	case 1:
		op := []string{" + ", " - ", " * ", " div ", " mod "}[g.t.Draw(5)]
		return g.num(depth+1) + op + g.num(depth+1)
	case 2:
		return "count(" + g.nodeset(depth+1) + ")"
	case 3:
		return []string{"position()", "last()"}[g.t.Draw(2)]
	case 4:
		return []string{"floor", "ceiling", "round", "number"}[g.t.Draw(4)] + "(" + g.expr(XType(g.t.Pick(1, 3, 1, 1)), depth+1) + ")"
	case 5:
		return "string-length(" + g.expr(TStr, depth+1) + ")"
	case 6:
		return "sum(" + g.nodeset(depth+1) + ")"
	case 7:
		return "$" + pick(g.t, g.env.NumVars)
	default:
		return "-" + g.num(depth+1)
	}
}

func (g *exprGen) str(depth int) string {
	g.budget--
	lits := []string{"'a'", "''", "\"b c\"", "'en'", "'1'", "' x '", "'é日'", "'-'"}
	lits = append(lits, g.env.Literals...)
	if depth > 3 || g.budget <= 0 {
		return lits[g.t.Draw(len(lits))]
	}
	w := []int{4, 2, 2, 2, 2, 2, 2, 2, 1, 1}
	if len(g.env.StrVars) == 0 {
		w[8] = 0
	}
	switch g.t.Pick(w...) {
	case 0:
		return lits[g.t.Draw(len(lits))]
	case 1:
		return "string(" + g.expr(XType(g.t.Pick(3, 1, 1, 1)), depth+1) + ")"
	case 2:
		return "concat(" + g.expr(TStr, depth+1) + ", " + g.expr(XType(g.t.Draw(4)), depth+1) + ")"
	case 3:
		return []string{"name", "local-name", "namespace-uri"}[g.t.Draw(3)] + "(" + []string{"", g.nodeset(depth + 1)}[g.t.Draw(2)] + ")"
	case 4:
		if g.t.Bool(1, 2) {
			return "substring(" + g.expr(TStr, depth+1) + ", " + g.num(depth+1) + ")"
		}
		return "substring(" + g.expr(TStr, depth+1) + ", " + g.num(depth+1) + ", " + g.num(depth+1) + ")"
	case 5:
		return []string{"substring-before", "substring-after"}[g.t.Draw(2)] + "(" + g.expr(TStr, depth+1) + ", " + g.expr(TStr, depth+1) + ")"
	case 6:
		return "normalize-space(" + []string{"", g.expr(TStr, depth+1)}[g.t.Draw(2)] + ")"
	case 7:
		return "translate(" + g.expr(TStr, depth+1) + ", " + lits[g.t.Draw(len(lits))] + ", " + lits[g.t.Draw(len(lits))] + ")"
	case 8:
		return "$" + pick(g.t, g.env.StrVars)
	default:
		return "string()"
	}
}

func (g *exprGen) boolean(depth int) string {
	g.budget--
	if depth > 3 || g.budget <= 0 {
		return []string{"true()", "false()", "*", "@*"}[g.t.Draw(4)]
	}
	w := []int{4, 2, 2, 2, 2, 1, 1, 2}
	if len(g.env.BoolVars) == 0 {
		w[6] = 0
	}
	switch g.t.Pick(w...) {
	case 0:
		op := []string{" = ", " != ", " < ", " <= ", " > ", " >= "}[g.t.Draw(6)]
		return g.expr(XType(g.t.Draw(4)), depth+1) + op + g.expr(XType(g.t.Draw(4)), depth+1)
	case 1:
		return g.boolean(depth+1) + []string{" and ", " or "}[g.t.Draw(2)] + g.boolean(depth+1)
	case 2:
		return "not(" + g.expr(XType(g.t.Draw(4)), depth+1) + ")"
	case 3:
		return []string{"contains", "starts-with"}[g.t.Draw(2)] + "(" + g.expr(TStr, depth+1) + ", " + g.expr(TStr, depth+1) + ")"
	case 4:
		return []string{"true()", "false()"}[g.t.Draw(2)]
	case 5:
		return "lang(" + []string{"'en'", "'de'", "'en-US'", "''"}[g.t.Draw(4)] + ")"
	case 6:
		return "$" + pick(g.t, g.env.BoolVars)
	default:
		return g.nodeset(depth + 1) // a node-set used as a boolean is well-typed
	}
}

func (g *exprGen) expr(typ XType, depth int) string {
	// user functions of the wanted type
	if depth <= 3 && g.budget > 0 && len(g.env.Funcs) > 0 && g.t.Bool(1, 8) {
		var cands []FuncSig
		for _, f := range g.env.Funcs {
			if f.Ret == typ {
				cands = append(cands, f)
			}
		}
		if len(cands) > 0 {
			return g.call(cands[g.t.Draw(len(cands))], depth)
		}
	}
	var s string
	switch typ {
	case TNodeSet:
		return g.nodeset(depth)
	case TNum:
		s = g.num(depth)
	case TStr:
		return g.str(depth)
	default:
		s = g.boolean(depth)
	}
	if depth > 0 {
		return "(" + s + ")"
	}
	return s
}

// GenExpr draws one well-typed expression of the given static type.
func GenExpr(t *simkit.Tape, env *ExprEnv, typ XType) string {
	g := &exprGen{t: t, env: env, budget: 14}
	return g.expr(typ, 0)
}

// GenExprAny draws an expression of a drawn type, biased to node-sets.
// literals with backslashes (Windows paths, regular-expression fragments): the
// lexer knows escapes, so a literal may end in a backslash only as the last
// token of an expression
var backslashLits = []string{`'C:\temp\'`, `'D:\'`, `'\'`, `'a\b'`, `"x\\"`, `'it\'s'`, `"q\"q"`, `'\n'`, `'a\'`}

func GenExprAny(t *simkit.Tape, env *ExprEnv) (string, XType) {
	if t.Bool(1, 30) {
		lit := backslashLits[t.Draw(len(backslashLits))]
		switch t.Draw(4) {
		case 0:
			return lit, TStr
		case 1:
			return "//* != " + lit, TBool
		case 2:
			return "//*[. = " + lit + "]", TNodeSet
		}
		return "string-length(//*) > 0 and //@* = " + lit, TBool
	}
	typ := XType(t.Pick(5, 2, 2, 2))
	return GenExpr(t, env, typ), typ
}

package model

import (
	"bytes"
	"strings"

	"golang.org/x/net/html"

	"verif/simkit"
)

type HTMLGenConfig struct {
	MaxNodes int
	MaxDepth int
	Foreign  bool
	Tables   bool
	Soup     bool
	Doctype  int // 0: html5, 1: legacy, 2: none, 3: late (after a comment)
	Colons   bool
	Wide     bool // some elements get 17-60 children / many attributes
	Deep     int  // > 0: that many nested elements followed by a sibling (counter widths)
	LeadWS   int  // > 0: that many white-space bytes before the doctype (sniff windows)
	Huge     int  // > 0: that many childless elements in a row (counters that leak per element)
}

func DrawHTMLConfig(t *simkit.Tape) HTMLGenConfig {
	c := HTMLGenConfig{}
	c.MaxNodes = []int{4, 10, 25, 60}[t.Pick(2, 3, 3, 2)]
	c.MaxDepth = t.Range(1, 7)
	c.Foreign = t.Bool(1, 2)
	c.Tables = t.Bool(1, 2)
	c.Soup = t.Bool(1, 2)
	c.Colons = t.Bool(1, 3)
	c.Doctype = t.Pick(8, 2, 1, 1)
	c.Wide = t.Bool(1, 6)
	if t.Bool(1, 25) {
		c.Deep = []int{130, 256, 257, 300, 511, 513}[t.Draw(6)]
	}
	if t.Bool(1, 60) {
		c.Huge = []int{10001, 12000, 20000}[t.Draw(3)]
	}
	if t.Bool(1, 25) {
		c.LeadWS = []int{500, 1016, 1024, 1025, 4096, 5000}[t.Draw(6)]
	}
	return c
}

var htmlStruct = []string{"div", "p", "span", "b", "i", "a", "ul", "li", "section", "h1", "em", "form", "button", "select", "option", "pre", "blockquote", "nobr", "font"}
var htmlVoid = []string{"br", "img", "hr", "input", "meta", "link", "wbr"}
var htmlRaw = []string{"script", "style", "textarea", "title", "noscript", "iframe"}
var htmlTable = []string{"table", "tbody", "tr", "td", "th", "caption", "colgroup", "col", "thead"}
var htmlForeign = []string{"svg", "math", "g", "circle", "path", "mi", "mo", "foreignObject", "desc", "annotation-xml"}
var htmlAttrNames = []string{"id", "class", "href", "title", "data-x", "style", "lang"}
var htmlNSAttrNames = []string{"xmlns", "xmlns:xlink", "xmlns:x", "xlink:href", "xml:lang", "x:y", "xlink:type", "v-on:update:model-value", "a:b:c", "v-bind:xlink:href"}
// shapes in which the HTML5 algorithm produces adjacent text nodes or implied
// elements: text in table context (foster parenting), also inside template
var htmlSnippets = []string{"<template><tr>a<!--x-->b</template>", "<table>a<!--x-->b<tr><td>c</td></tr>d</table>", "<template><td>x</td>y<!---->z</template>", "<table><tr>t1<td>u</td>t2</tr></table>", "<select>a<option>b<!--c-->d</select>", "<svg><foreignObject><div>a</div>b</foreignObject><title>t</title></svg>", "<math><mi xlink:href=\"h\" xmlns:xlink=\"u\">x</mi><annotation-xml encoding=\"text/html\"><p>q</p></annotation-xml></math>", "<p>a<table><tr><td>b</table>c", "<frameset><frame src=x></frameset>"}

var htmlTexts = []string{"hello", " ", "a &amp; b", "&lt;x&gt;", "x<y", "1 > 0", "é😀", "&nbsp;", "\n", "&#65;&#x42;", "&unknown;", "text with  spaces", "]]>", "--", "a\x00b"}

type htmlGen struct {
	t     *simkit.Tape
	cfg   HTMLGenConfig
	b     strings.Builder
	nodes int
}

func (g *htmlGen) attrs() {
	n := g.t.Pick(4, 3, 2, 1)
	if g.cfg.Wide && g.t.Bool(1, 5) {
		n = 5 + g.t.Draw(12)
	}
	for i := 0; i < n; i++ {
		var name string
		if (g.cfg.Foreign || g.cfg.Colons) && g.t.Bool(1, 3) {
			name = htmlNSAttrNames[g.t.Draw(len(htmlNSAttrNames))]
		} else {
			name = htmlAttrNames[g.t.Draw(len(htmlAttrNames))]
		}
		if g.t.Bool(1, 5) {
			name = strings.ToUpper(name)
		}
		g.b.WriteString(" " + name)
		switch g.t.Pick(4, 2, 1, 1) {
		case 0:
			g.b.WriteString(`="` + []string{"v", "urn:a", "a b", "x&amp;y", "", "http://www.w3.org/1999/xlink", "1"}[g.t.Draw(7)] + `"`)
		case 1:
			g.b.WriteString(`='` + []string{"v", "q\"q", "é"}[g.t.Draw(3)] + `'`)
		case 2:
			g.b.WriteString("=bare")
		case 3:
			// no value
		}
	}
}

func (g *htmlGen) content(depth int) {
	n := g.t.Geo(5)
	if g.t.Bool(1, 3) {
		n += g.t.Draw(4)
	}
	budget := g.cfg.MaxNodes
	if g.cfg.Wide && g.t.Bool(1, 4) {
		n = 17 + g.t.Draw(44)
		budget = g.nodes + n + 4
	}
	for i := 0; i < n && g.nodes < budget; i++ {
		g.nodes++
		switch g.t.Pick(5, 4, 1, 1, 1, 1) {
		case 5:
			g.b.WriteString(htmlSnippets[g.t.Draw(len(htmlSnippets))])
		case 0:
			g.element(depth)
		case 1:
			g.b.WriteString(htmlTexts[g.t.Draw(len(htmlTexts))])
		case 2:
			g.b.WriteString("<!--" + []string{"c", "", " a-b ", "-", ">", "x--y"}[g.t.Draw(6)] + "-->")
		case 3:
			v := htmlVoid[g.t.Draw(len(htmlVoid))]
			g.b.WriteString("<" + v)
			g.attrs()
			if g.t.Bool(1, 3) {
				g.b.WriteString("/")
			}
			g.b.WriteString(">")
		case 4:
			r := htmlRaw[g.t.Draw(len(htmlRaw))]
			g.b.WriteString("<" + r + ">" + []string{"x<y", "</b>", "a&amp;b", "<!--", ""}[g.t.Draw(5)] + "</" + r + ">")
		}
	}
}

func (g *htmlGen) element(depth int) {
	pool := htmlStruct
	switch {
	case g.cfg.Foreign && g.t.Bool(1, 4):
		pool = htmlForeign
	case g.cfg.Tables && g.t.Bool(1, 4):
		pool = htmlTable
	}
	name := pool[g.t.Draw(len(pool))]
	if g.cfg.Colons && g.t.Bool(1, 8) {
		name = []string{"a:b", "x:div", "svg:g", "w:sdt:content"}[g.t.Draw(4)]
	}
	if g.t.Bool(1, 10) {
		name = strings.ToUpper(name)
	}
	g.b.WriteString("<" + name)
	g.attrs()
	if g.cfg.Foreign && g.t.Bool(1, 8) {
		g.b.WriteString("/>")
		return
	}
	g.b.WriteString(">")
	if depth < g.cfg.MaxDepth {
		g.content(depth + 1)
	}
	// tag soup at generation time: omit / mis-nest / stray end tags
	if g.cfg.Soup {
		switch g.t.Pick(6, 2, 1, 1) {
		case 1:
			return // unclosed
		case 2:
			g.b.WriteString("</" + htmlStruct[g.t.Draw(len(htmlStruct))] + ">")
		case 3:
			g.b.WriteString("</" + name + "></" + name + ">")
			return
		}
	}
	g.b.WriteString("</" + name + ">")
}

// GenHTML draws an HTML page as text.
func GenHTML(t *simkit.Tape, cfg HTMLGenConfig) []byte {
	g := &htmlGen{t: t, cfg: cfg}
	for i := 0; i < cfg.LeadWS; i++ {
		g.b.WriteByte(" \n\t\r\f"[t.Pick(6, 2, 1, 1, 1)])
	}
	switch cfg.Doctype {
	case 0:
		g.b.WriteString([]string{"<!DOCTYPE html>", "<!doctype html>", "<!DOCTYPE html>\n"}[t.Draw(3)])
	case 1:
		g.b.WriteString([]string{
			`<!DOCTYPE HTML PUBLIC "-//W3C//DTD HTML 4.01//EN" "http://www.w3.org/TR/html4/strict.dtd">`,
			`<!DOCTYPE html PUBLIC "-//W3C//DTD XHTML 1.0 Transitional//EN" "http://www.w3.org/TR/xhtml1/DTD/xhtml1-transitional.dtd">`,
			`<!DOCTYPE HTML PUBLIC "-//W3C//DTD HTML 3.2 Final//EN">`,
			`<!DOCTYPE html SYSTEM "about:legacy-compat">`,
			`<!DOCTYPE html PUBLIC "-//W3C//DTD HTML 4.01 Frameset//EN" "http://www.w3.org/TR/html4/frameset.dtd">`,
			`<!doctype svg>`,
		}[t.Pick(3, 2, 2, 2, 1, 1)])
	case 3:
		g.b.WriteString("<!-- first --><!DOCTYPE html>")
	}
	switch t.Pick(3, 3, 1) {
	case 0:
		g.b.WriteString("<html")
		g.attrs()
		g.b.WriteString("><head>")
		if t.Bool(1, 2) {
			g.b.WriteString("<title>t</title>")
		}
		g.b.WriteString("</head><body")
		g.attrs()
		g.b.WriteString(">")
		g.content(1)
		g.b.WriteString("</body></html>")
	case 1:
		if cfg.Huge > 0 {
			tag := []string{"<br>", "<td></td>", "<img>", "<span></span>"}[t.Draw(4)]
			g.b.WriteString("<div>" + strings.Repeat(tag, cfg.Huge) + "</div><p>after</p>")
		}
		if cfg.Deep > 0 {
			tag := []string{"div", "span", "b", "section"}[t.Draw(4)]
			g.b.WriteString(strings.Repeat("<"+tag+">", cfg.Deep))
			g.b.WriteString("x")
			g.b.WriteString(strings.Repeat("</"+tag+">", cfg.Deep))
			g.b.WriteString("<p>after</p>")
		}
		g.content(1)
	case 2:
		g.b.WriteString("<html><body>")
		g.content(1)
		g.b.WriteString("</body></html>")
		g.content(1) // nodes after </html>
	}
	if t.Bool(1, 3) {
		g.b.WriteString("<!-- trailing -->")
	}
	return []byte(g.b.String())
}

// HTMLRef is the reference named by the property: the HTML5 parse tree built
// by golang.org/x/net/html, walked with a plain recursion. ok=false when the
// document does not start with a doctype (not judged) or the reference parser
// itself fails.
func HTMLRef(data []byte) (tree *Node, ok bool) {
	doc, err := html.Parse(bytes.NewReader(data))
	if err != nil || doc.FirstChild == nil || doc.FirstChild.Type != html.DoctypeNode {
		return nil, false
	}
	root := &Node{Kind: KRoot}
	var walk func(n *html.Node, into *Node)
	walk = func(n *html.Node, into *Node) {
		for c := n.FirstChild; c != nil; c = c.NextSibling {
			switch c.Type {
			case html.ElementNode:
				e := &Node{Kind: KElem, Local: localPart(c.Data), InScope: map[string]string{}}
				for _, a := range c.Attr {
					if a.Namespace == "xmlns" || (a.Namespace == "" && (a.Key == "xmlns" || strings.HasPrefix(a.Key, "xmlns:"))) {
						continue
					}
					e.Attrs = append(e.Attrs, &Node{Kind: KAttr, Local: localPart(a.Key), Value: a.Val})
				}
				into.Children = append(into.Children, e)
				walk(c, e)
			case html.TextNode:
				into.Children = append(into.Children, &Node{Kind: KText, Value: c.Data})
			case html.CommentNode:
				into.Children = append(into.Children, &Node{Kind: KComment, Value: c.Data})
			case html.DoctypeNode:
				// skipped
			}
		}
	}
	walk(doc, root)
	return root, true
}

func localPart(s string) string {
	if i := strings.Index(s, ":"); i >= 0 {
		return s[i+1:]
	}
	return s
}

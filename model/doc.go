// Package model holds the abstract documents, generators, serialisers and the
// cursor snapshot code shared by the engines. Nothing here depends on xsel's
// parser or evaluator; the snapshot code uses the public Cursor API only.
package model

import (
	"fmt"
	"sort"
	"strings"
)

type Kind int

const (
	KRoot Kind = iota
	KElem
	KAttr
	KText
	KComment
	KPI
	KNS
)

func (k Kind) String() string {
	return [...]string{"root", "element", "attribute", "text", "comment", "pi", "namespace"}[k]
}

type Decl struct{ Prefix, URI string }

// Node is an abstract XPath-data-model node.
type Node struct {
	Kind     Kind
	Space    string // element/attribute namespace URI
	Local    string // element/attribute local name; namespace prefix for KNS
	Prefix   string // serialisation hint only
	Value    string // attribute value, text, comment, PI data, namespace URI
	Target   string // PI target
	Attrs    []*Node
	Decls    []Decl            // declarations written on this element (serialisation)
	InScope  map[string]string // expected namespace nodes of an element: prefix -> URI
	Children []*Node
}

const XMLNS = "http://www.w3.org/XML/1998/namespace"

// Render produces the canonical, order-preserving text form used for
// comparison. Attributes and namespace nodes are sorted (their relative order
// is not defined by the data model) unless keepOrder is set.
func (n *Node) Render(keepOrder bool, withNS bool) string {
	var b strings.Builder
	n.render(&b, 0, keepOrder, withNS)
	return b.String()
}

func (n *Node) render(b *strings.Builder, depth int, keepOrder, withNS bool) {
	ind := strings.Repeat(" ", depth)
	switch n.Kind {
	case KRoot, KElem:
		if n.Kind == KRoot {
			// attributes or namespace nodes on the root are rendered too: the
			// root has none in any of the data models, so any is a difference
			b.WriteString("ROOT\n")
		} else {
			fmt.Fprintf(b, "%sE {%s}%s\n", ind, n.Space, n.Local)
		}
		if withNS {
			ks := make([]string, 0, len(n.InScope))
			for k := range n.InScope {
				ks = append(ks, k)
			}
			sort.Strings(ks)
			for _, k := range ks {
				fmt.Fprintf(b, "%s N %q=%q\n", ind, k, n.InScope[k])
			}
		}
		attrs := n.Attrs
		if !keepOrder {
			attrs = append([]*Node(nil), n.Attrs...)
			sort.SliceStable(attrs, func(i, j int) bool {
				if attrs[i].Space != attrs[j].Space {
					return attrs[i].Space < attrs[j].Space
				}
				return attrs[i].Local < attrs[j].Local
			})
		}
		for _, a := range attrs {
			fmt.Fprintf(b, "%s A {%s}%s=%q\n", ind, a.Space, a.Local, a.Value)
		}
	case KText:
		fmt.Fprintf(b, "%sT %q\n", ind, n.Value)
	case KComment:
		fmt.Fprintf(b, "%sC %q\n", ind, n.Value)
	case KPI:
		fmt.Fprintf(b, "%sP %q %q\n", ind, n.Target, n.Value)
	case KAttr:
		fmt.Fprintf(b, "%sA {%s}%s=%q\n", ind, n.Space, n.Local, n.Value)
	case KNS:
		fmt.Fprintf(b, "%sN %q=%q\n", ind, n.Local, n.Value)
	}
	for _, c := range n.Children {
		c.render(b, depth+1, keepOrder, withNS)
	}
}

// FirstDiff describes the first differing line of two renderings.
func FirstDiff(want, got string) string {
	if want == got {
		return ""
	}
	w := strings.Split(want, "\n")
	g := strings.Split(got, "\n")
	for i := 0; i < len(w) || i < len(g); i++ {
		var a, b string
		if i < len(w) {
			a = w[i]
		} else {
			a = "<end>"
		}
		if i < len(g) {
			b = g[i]
		} else {
			b = "<end>"
		}
		if a != b {
			ctx := ""
			if i > 0 {
				ctx = " (after " + strings.TrimSpace(w[i-1]) + ")"
			}
			return fmt.Sprintf("line %d%s: want %s, got %s", i+1, ctx, strings.TrimSpace(a), strings.TrimSpace(b))
		}
	}
	return "differ"
}

// CountNodes counts nodes of the tree (excluding namespace nodes).
func (n *Node) CountNodes() int {
	c := 1 + len(n.Attrs)
	for _, ch := range n.Children {
		c += ch.CountNodes()
	}
	return c
}

// Clone deep-copies a tree.
func (n *Node) Clone() *Node {
	m := *n
	m.Attrs = nil
	for _, a := range n.Attrs {
		aa := *a
		m.Attrs = append(m.Attrs, &aa)
	}
	m.Children = nil
	for _, c := range n.Children {
		m.Children = append(m.Children, c.Clone())
	}
	if n.InScope != nil {
		m.InScope = map[string]string{}
		for k, v := range n.InScope {
			m.InScope[k] = v
		}
	}
	return &m
}
